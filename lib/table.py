"""Per-property check table: which harnesses decide which property, at which tier, with which bounds.
Harness naming: cNN_q_* run in both tiers, cNN_t_* only in the thorough tier."""

MC = "model_checking"


def tiers(pfx, quick_timeout=300, thorough_timeout=1500, qbounds="", tbounds="", qjobs=16, tjobs=12):
    return {
        "quick": {"groups": [{"filters": [pfx + "_q_"], "timeout": quick_timeout, "jobs": qjobs}], "bounds": qbounds},
        "thorough": {"groups": [{"filters": [pfx + "_q_", pfx + "_t_"], "timeout": thorough_timeout, "jobs": tjobs}],
                     "bounds": tbounds or qbounds},
    }


PROPS = {}

PROPS["C37"] = {
    "module": "c37_backoff",
    "level": MC,
    "technique": "Kani/CBMC bounded symbolic execution of ExponentialBackoff::next; one-step induction over an arbitrary state",
    "kernels": ["opcua::client::retry::ExponentialBackoff::next", "SessionRetryPolicy::new_backoff"],
    "explanation": "One next() step from an arbitrary (max_sleep, max_retries, current_sleep, retry_count) state is decided for "
                   "all 2^224 states: no panic, None iff limit<=count, yields current delay, new delay = min(max, 2*current) in exact "
                   "arithmetic. Because the pre-state is unconstrained, the step result covers sequences of any length. A second "
                   "harness unrolls 5 calls from new() for limits 0..3 (first delay = initial, exactly `limit` delays).",
    "outside": "nothing about the event loop that consumes the delays (tokio sleep) is encoded",
    "assumptions": ["Duration values are well-formed (nanos < 10^9)"],
    "tiers": tiers("c37", qbounds="no loop in the kernel; from_new harness: 5 calls, limit <= 3, unwind 6; all Duration/u32 values",
                   tbounds="same (the claim is already over all values)"),
}

PROPS["C06"] = {
    "module": "c06_convert",
    "level": MC,
    "technique": "Kani/CBMC symbolic execution of Variant::convert / Variant::cast over every bit pattern of each numeric source type, symbolic target type; reference oracle in i128 / exact f64 steps",
    "kernels": ["opcua::types::variant::Variant::convert", "opcua::types::variant::Variant::cast", "cast_to_integer!", "cast_to_bool!"],
    "explanation": "For each of the 11 numeric source types (Boolean, 8 integer types, Float, Double) the source value is one fully symbolic "
                   "machine word and the target type is symbolic over the 10 numeric types. convert: the result is Empty or has the target type and "
                   "denotes the same number (i128 compare; nearest float by bit pattern) and is Empty whenever the value is out of range. cast: in "
                   "addition an in-range value must yield a result; from Float/Double the result must be one of the integers nearest to the exact "
                   "value (either neighbour accepted at exact ties), and Empty exactly when every nearest integer is out of range (NaN, infinities, huge values included). "
                   "No value bound: the claim is for every bit pattern.",
    "outside": "String sources/targets (regex and number parsing/formatting are stubbed out: Regex::new -> assume(false), fmt::format -> empty), arrays, Boolean as a target",
    "assumptions": ["paths through regex::Regex::new are cut (assume(false)); alloc::fmt::format returns an empty String"],
    "tiers": tiers("c06", qbounds="no loops in the kernels (unwind 3 only bounds drop/clone glue); all 2^8..2^64 source values x 10 target types per harness"),
}
