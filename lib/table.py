"""Per-property check table: which harnesses decide which property, at which tier, with which bounds.
Harness naming: cNN_q_* run in both tiers, cNN_t_* only in the thorough tier."""

MC = "model_checking"


def tiers(pfx, quick_timeout=300, thorough_timeout=1500, qbounds="", tbounds="", qjobs=16, tjobs=12):
    return {
        "quick": {"groups": [{"filters": [pfx + "_q_"], "timeout": quick_timeout, "jobs": qjobs}], "bounds": qbounds},
        "thorough": {"groups": [{"filters": [pfx + "_q_", pfx + "_t_"], "timeout": thorough_timeout, "jobs": tjobs}],
                     "bounds": tbounds or qbounds},
    }


PROPS = {}

PROPS["C37"] = {
    "module": "c37_backoff",
    "level": MC,
    "technique": "Kani/CBMC bounded symbolic execution of ExponentialBackoff::next; one-step induction over an arbitrary state",
    "kernels": ["opcua::client::retry::ExponentialBackoff::next", "SessionRetryPolicy::new_backoff"],
    "explanation": "One next() step from an arbitrary (max_sleep, max_retries, current_sleep, retry_count) state is decided for "
                   "all 2^224 states: no panic, None iff limit<=count, yields current delay, new delay = min(max, 2*current) in exact "
                   "arithmetic. Because the pre-state is unconstrained, the step result covers sequences of any length. A second "
                   "harness unrolls 5 calls from new() for limits 0..3 (first delay = initial, exactly `limit` delays).",
    "outside": "nothing about the event loop that consumes the delays (tokio sleep) is encoded",
    "assumptions": ["Duration values are well-formed (nanos < 10^9)"],
    "tiers": tiers("c37", qbounds="no loop in the kernel; from_new harness: 5 calls, limit <= 3, unwind 6; all Duration/u32 values",
                   tbounds="same (the claim is already over all values)"),
}
