"""Per-property check table: which harnesses decide which property, at which tier, with which bounds.
Harness naming: cNN_q_* run in both tiers, cNN_t_* only in the thorough tier."""

MC = "model_checking"


def tiers(pfx, quick_timeout=300, thorough_timeout=1500, qbounds="", tbounds="", qjobs=16, tjobs=12):
    return {
        "quick": {"groups": [{"filters": [pfx + "_q_"], "timeout": quick_timeout, "jobs": qjobs}], "bounds": qbounds},
        "thorough": {"groups": [{"filters": [pfx + "_q_", pfx + "_t_"], "timeout": thorough_timeout, "jobs": tjobs}],
                     "bounds": tbounds or qbounds},
    }


PROPS = {}

PROPS["C37"] = {
    "module": "c37_backoff",
    "level": MC,
    "technique": "Kani/CBMC bounded symbolic execution of ExponentialBackoff::next; one-step induction over an arbitrary state",
    "kernels": ["opcua::client::retry::ExponentialBackoff::next", "SessionRetryPolicy::new_backoff"],
    "explanation": "One next() step from an arbitrary (max_sleep, max_retries, current_sleep, retry_count) state is decided for "
                   "all 2^224 states: no panic, None iff limit<=count, yields current delay, new delay = min(max, 2*current) in exact "
                   "arithmetic. Because the pre-state is unconstrained, the step result covers sequences of any length. A second "
                   "harness unrolls 5 calls from new() for limits 0..3 (first delay = initial, exactly `limit` delays).",
    "outside": "nothing about the event loop that consumes the delays (tokio sleep) is encoded",
    "assumptions": ["Duration values are well-formed (nanos < 10^9)"],
    "tiers": tiers("c37", qbounds="no loop in the kernel; from_new harness: 5 calls, limit <= 3, unwind 6; all Duration/u32 values",
                   tbounds="same (the claim is already over all values)"),
}

PROPS["C06"] = {
    "module": "c06_convert",
    "level": MC,
    "technique": "Kani/CBMC symbolic execution of Variant::convert / Variant::cast over every bit pattern of each numeric source type, symbolic target type; reference oracle in i128 / exact f64 steps",
    "kernels": ["opcua::types::variant::Variant::convert", "opcua::types::variant::Variant::cast", "cast_to_integer!", "cast_to_bool!"],
    "explanation": "For each of the 11 numeric source types (Boolean, 8 integer types, Float, Double) the source value is one fully symbolic "
                   "machine word and the target type is symbolic over the 10 numeric types. convert: the result is Empty or has the target type and "
                   "denotes the same number (i128 compare; nearest float by bit pattern) and is Empty whenever the value is out of range. cast: in "
                   "addition an in-range value must yield a result; from Float/Double the result must be one of the integers nearest to the exact "
                   "value (either neighbour accepted at exact ties), and Empty exactly when every nearest integer is out of range (NaN, infinities, huge values included). "
                   "No value bound: the claim is for every bit pattern.",
    "outside": "String sources/targets (regex and number parsing/formatting are stubbed out: Regex::new -> assume(false), fmt::format -> empty), arrays, Boolean as a target",
    "assumptions": ["paths through regex::Regex::new are cut (assume(false)); alloc::fmt::format returns an empty String"],
    "tiers": tiers("c06", qbounds="no loops in the kernels (unwind 3 only bounds drop/clone glue); all 2^8..2^64 source values x 10 target types per harness"),
}

STD_CUTS = ["paths through regex::Regex::new are cut (assume(false))", "alloc::fmt::format returns an empty String",
            "HashMap RandomState uses fixed keys", "chrono::Utc::now returns a fixed instant (2020-09-13T12:26:40Z)"]

PROPS["C22"] = {
    "module": "c22_keepalive",
    "level": MC,
    "technique": "Kani/CBMC: one-step induction on Subscription::update_state from an arbitrary invariant-satisfying state (all u32 counter values), plus concrete-prefix harnesses from Subscription::new",
    "kernels": ["opcua::server::subscriptions::subscription::Subscription::update_state", "start_publishing_timer", "reset_keep_alive_counter", "reset_lifetime_counter", "Subscription::new"],
    "explanation": "State = (state, lifetime_counter, keep_alive_counter, max counters, first_message_sent, publishing_enabled) set on a real "
                   "Subscription through hooks; all counters fully symbolic u32. Obligations, each one update_state step from an arbitrary state satisfying "
                   "I (1<=ka<=maxka, 1<=lt<=maxlt, maxlt>=3*maxka>=3): (1) I preserved or Closed+Expired, expiry only from lt==1, no underflow; (2) KeepAlive state, "
                   "publishing enabled, request queued, no notifications: keep-alive returned with counter reset iff ka==1, else ka strictly decreases (ranking: a keep-alive "
                   "at least every maxka expiries); (2') healthy-client invariant J (KeepAlive && lt>=ka+1) is preserved and nothing expires under J; (3) from Subscription::new: "
                   "created, keep-alive at the first interval, KeepAlive entered with J; (4) with no request queued each expiry decrements lt by exactly 1 and expiry happens exactly at lt==1.",
    "outside": "Subscriptions::tick (pairing of requests with notifications), monitored-item sampling, the timer task; publishing interval arithmetic is C26",
    "assumptions": STD_CUTS + ["update_state is never called with ReceivePublishRequest and timer-expired together (documented panic precondition; callers never do)",
                               "subscription parameters come from revise_subscription_values (C23): max_lifetime >= 3*max_keep_alive >= 3"],
    "tiers": tiers("c22", qbounds="update_state is loop-free; counters: all u32 values; corner harness: 7 concrete steps (unwind 8)"),
}

PROPS["C23"] = {
    "module": "c23_revise",
    "level": MC,
    "technique": "Kani/CBMC symbolic execution of the revision kernels over all requested values (f64 incl. NaN/inf, u32, usize) and all valid limit configurations",
    "kernels": ["SubscriptionService::revise_subscription_values", "MonitoredItem::sanitize_sampling_interval", "MonitoredItem::sanitize_queue_size"],
    "explanation": "Requested publishing interval / keep-alive / lifetime / sampling interval / queue size AND the seven server limits are symbolic machine words. "
                   "Asserted: revised interval >= minimum; 1 <= keep-alive <= maximum; lifetime >= 3*keep-alive; sampling interval == -1 or >= minimum; 1 <= queue size <= maximum. All values, no bound.",
    "outside": "CreateSubscription/ModifySubscription/CreateMonitoredItems plumbing around the kernels",
    "assumptions": ["configuration validity: min intervals finite and > 0; 1 <= default_keep_alive <= max_keep_alive; max_lifetime >= 3*max_keep_alive; max_monitored_item_queue_size >= 1 (0 = 'no limit (danger)' is treated as outside the valid configuration space)",
                    "ServerState is a partially initialised value carrying only the limit fields (hook PartialServerState)"],
    "tiers": tiers("c23", qbounds="loop-free kernels; all values"),
}

PROPS["C24"] = {
    "module": "c24_queue",
    "level": MC,
    "technique": "Kani/CBMC symbolic execution of MonitoredItem::enqueue_notification_message / MonitoredItem::modify on real VecDeque queues with symbolic values, against an array reference model; queue shape concrete per instance",
    "kernels": ["MonitoredItem::enqueue_notification_message", "MonitoredItem::modify", "MonitoredItem::sanitize_queue_size", "FilterType::from_filter (null filter)", "ServerState::decoding_options"],
    "explanation": "Per instance (queue size q, discard policy) a history of q+2 enqueues of symbolic values is executed on the real MonitoredItem and "
                   "compared after every step with an array model: length <= q, values in sample order, newest q kept (discard-oldest) or newest replaced, overflow marked. "
                   "The resize half (MonitoredItem::modify) is NOT decided: on the unrepaired tree the shrink instances returned the queue_size - len underflow in 34 s, but on the repaired tree "
                   "VecDeque::drain/shrink_to_fit over 100-byte elements did not finish in 26 min even with every input concrete, so no resize harness is registered.",
    "outside": "queue sizes above 3; symbolic queue size / policy / requested size in one query (VecDeque head/len symbolic: no verdict in 15 min); event notifications; sampling (check_value) that feeds the queue",
    "assumptions": STD_CUTS + ["ServerState is a partially initialised value carrying only the limit fields and config", "AddressSpace::default() (empty) is passed to modify; it is only read for event filters"],
    "tiers": {
        "quick": {"groups": [{"filters": ["c24_q_"], "timeout": 900, "jobs": 8}],
                  "bounds": "q in {1,2} x both policies, 3-4 enqueues; values symbolic u32; unwind 1 (straight-line harness; recursion of drop glue cut at depth 1 under unwinding assertions)"},
        "thorough": {"groups": [{"filters": ["c24_q_", "c24_t_"], "timeout": 2400, "jobs": 8}],
                     "bounds": "adds q=3 x both policies with 5 enqueues"},
    },
}

PROPS["C26"] = {
    "module": "c26_time",
    "level": MC,
    "technique": "Kani/CBMC symbolic execution of the three elapsed-time kernels with symbolic times-of-day (seconds, nanoseconds) on concrete calendar dates; exact i128 nanosecond oracle",
    "kernels": ["Subscription::test_and_set_publishing_interval_elapsed", "MonitoredItem::tick (elapsed-time test)", "duration_from_ms"],
    "explanation": "now and the stored/client instant are symbolic (second of day, nanosecond) pairs on concrete dates (same day, a day later, a day earlier, "
                   "1601-01-01, 9999-12-31), so every ordering and every sub-day distance is inside each query. Asserted: no panic; interval-elapsed is true exactly when "
                   "now - last >= interval whenever now >= last (when the clock went backwards only totality is asserted); (Subscriptions::expire_stale_publish_requests has harnesses - c26_x_* - that are not registered: no reliable verdict within 30 GB).",
    "outside": "queued publish requests (Subscriptions::expire_stale_publish_requests: the BadTimeout-only-after-timeout half of the statement and the client-timestamp panic site, repaired but not re-checkable); symbolic calendar dates (chrono's calendar arithmetic does not solve); symbolic publishing/sampling interval and timeout values (concrete 250 ms / 30 s / 5 s: symbolic f64 multiplication and 64-bit division did not finish); Subscriptions::tick",
    "assumptions": STD_CUTS + ["client timestamps have 100 ns resolution (OPC UA DateTime)"],
    "tiers": {
        "quick": {"groups": [{"filters": ["c26_q_"], "timeout": 1500, "jobs": 8}],
                  "bounds": "date pairs: same day, last tomorrow; interval 250 ms; unwind 2-3"},
        "thorough": {"groups": [{"filters": ["c26_q_", "c26_t_"], "timeout": 2400, "jobs": 8}],
                     "bounds": "adds last yesterday, item tick with the last sample a day later"},
    },
}

UTF8_STUB = "String::from_utf8 is replaced by a byte-loop validator (stubs::string_from_utf8) proved equal to core::str::from_utf8 for all byte strings of length <= 4 (lemma_utf8_valid, run with this check)"

PROPS["C03"] = {
    "module": "c03_limits",
    "level": MC,
    "technique": "Kani/CBMC symbolic execution of the length-prefixed decoders with the declared length (full i32/u32) AND the configured limit symbolic; exact accept/reject oracle and cursor position on rejection",
    "kernels": ["UAString::decode", "ByteString::decode", "read_array", "QualifiedName::decode", "LocalizedText::decode", "Variant::decode (array length, dimensions)", "MessageChunk::decode"],
    "explanation": "For each decoder the four length bytes are symbolic (every i32, including negative, -1, i32::MAX) and the governing limit is symbolic in 0..=4 while the "
                   "other two limits are unconstrained symbolic values (so consulting the wrong limit is a counterexample). Asserted: Ok iff len == -1 or 0 <= len <= limit; on rejection "
                   "the stream cursor is exactly behind the length field (nothing of the body read). Same string limit nested in QualifiedName, LocalizedText; Variant array / dimensions; "
                   "MessageChunk: rejected iff max > 0 and size > max, cursor at 12.",
    "outside": "limits above 4 (strings) / 3 (arrays) / 20 (chunks); payloads restricted to ASCII for strings (UTF-8 validity is not the subject); short reads are cut (SrcLong assumes enough bytes; truncation is C02)",
    "assumptions": ["alloc::fmt::format returns an empty String", UTF8_STUB, "streams::SrcLong: a Read whose read_exact is one copy loop; reads beyond the buffer are assumed away"],
    "tiers": {
        "quick": {"groups": [{"filters": ["c03_q_", "lemma_utf8_valid"], "timeout": 1200, "jobs": 12}],
                  "bounds": "limit <= 4 (string, byte string), <= 3 (read_array), <= 20 (chunk); declared length: all 2^32 values; unwind 5-30"},
        "thorough": {"groups": [{"filters": ["c03_q_", "lemma_utf8_valid"], "timeout": 1500, "jobs": 12},
                                {"filters": ["c03_t_"], "timeout": 2400, "jobs": 2, "mem_gb": 30}],
                     "bounds": "adds the dimensions array of a multi-dimensional Variant array (the Variant array-length instance c03_x_variant_array_limit is not registered: 131 s once, later out of memory / > 30 min at 20 GB)"},
    },
}

PROPS["C02"] = {
    "module": "c02_decode",
    "level": MC,
    "technique": "Kani/CBMC symbolic execution of the binary decoders over all byte strings of a fixed length (Variant dispatch byte concrete per instance); panic/overflow/index/unwinding assertions plus explicit nesting-depth assertions",
    "kernels": ["UAString/ByteString/Guid/NodeId/QualifiedName/LocalizedText/ExtensionObject::decode", "DiagnosticInfo::decode", "DataValue::decode", "Variant::decode", "Variant::decode_variant_value",
                "HelloMessage/AcknowledgeMessage/ErrorMessage::decode", "SymmetricSecurityHeader/AsymmetricSecurityHeader/SequenceHeader::decode", "DepthLock::obtain"],
    "explanation": "Each harness offers N fully symbolic bytes (N = 2..36 per type) to one decoder under small limits (strings/arrays <= 2) and asserts totality through Kani's built-in checks "
                   "(panic, arithmetic overflow, slice index, unwinding). Recursion: DiagnosticInfo (every mask at every level symbolic), DataValue-in-Variant-in-DataValue (DataValue masks symbolic, "
                   "Variant masks 0x17), Variant-in-Variant (0x18) and Variant arrays (0x98): a value that decodes Ok never nests deeper than the configured depth d in {1,2}. Variant array dimensions: "
                   "product arithmetic cannot overflow and only matching dimensions are accepted. Truncation: streams that end inside a fixed-size payload yield Err.",
    "outside": "byte strings longer than the stated N; Variant masks other than the listed instances; DateTime fields (calendar arithmetic does not solve) — DataValue masks with timestamp bits and Variant type 13 are excluded; "
               "generated service messages; allocation sizes (C03 shows rejection precedes allocation); native stack depth is represented by the decoding-depth assertions, not measured",
    "assumptions": ["alloc::fmt::format returns an empty String", UTF8_STUB, "paths through regex::Regex::new are cut (assume(false))",
                    "streams::SrcLong cuts short reads (assume); truncated streams are explored by SrcTrunc instances with fixed-size payloads"],
    "tiers": {
        "quick": {"groups": [{"filters": ["c02_q_"], "timeout": 1500, "jobs": 16}],
                  "bounds": "N <= 36 bytes; strings/arrays <= 2; depth d in {1,2}; Variant masks 0x01 0x06 0x0B 0x0C 0x17 0x18 0x1A 0xC6; unwind 4-20"},
        "thorough": {"groups": [{"filters": ["c02_q_", "c02_t_"], "timeout": 2400, "jobs": 12}],
                     "bounds": "adds NodeId, LocalizedText, AsymmetricSecurityHeader; Variant masks 0x0E 0x0F 0x11 0x13 0x14 0x15 0x19; more truncation instances"},
    },
}

PROPS["C12"] = {
    "module": "c12_sequence",
    "level": MC,
    "technique": "Kani/CBMC symbolic execution of Chunker::validate_chunks on real MessageChunks with symbolic sequence numbers, request ids, channel ids and starting number, against the specification predicate",
    "kernels": ["Chunker::validate_chunks", "MessageChunk::new", "MessageChunk::chunk_info", "SequenceHeader::decode", "MessageChunkHeader::decode"],
    "explanation": "For messages of k = 1 and 2 chunks every sequence number, request id, sender channel id, the receiver's channel id and the starting number are symbolic u32. "
                   "Asserted: Ok exactly when the numbers are consecutive without wrapping, the first is not below the starting number, all request ids equal the first and every chunk carries the "
                   "receiver's channel id (or the receiver has id 0); the returned value is the last sequence number; presenting the same chunks again with start = returned + 1 (the call protocol "
                   "of client and server) is rejected; no panic for any values (overflow near u32::MAX).",
    "outside": "messages of 3 or more chunks (14 GB); the callers that maintain last_received_sequence_number (TcpTransport / client transport core: async, not constructible) - a caller passing the wrong "
               "starting number is invisible here; the sending side (SendBuffer / MessageWriter counters)",
    "assumptions": ["alloc::fmt::format returns an empty String", UTF8_STUB, "chrono::Utc::now returns a fixed instant", "policy None / mode None chunks (sequence header in clear)"],
    "tiers": tiers("c12", quick_timeout=900, qbounds="k in {1,2} chunks, 2-byte bodies; all u32 values; unwind 4"),
}

PROPS["C13"] = {
    "module": "c13_keys",
    "level": MC,
    "technique": "Kani/CBMC symbolic execution of hash::p_sha / SecurityPolicy::prf / make_secure_channel_keys / SecureChannel::derive_keys with OpenSSL HMAC replaced by a linear stand-in; differential check against an independent RFC 5246 P_hash + Part 6 Table 33 reference",
    "kernels": ["opcua::crypto::hash::p_sha", "SecurityPolicy::prf", "SecurityPolicy::make_secure_channel_keys", "SecureChannel::derive_keys", "SecureChannel::set_local_nonce", "SecureChannel::set_remote_nonce"],
    "explanation": "(1) Per policy: signing key, encrypting key and IV returned by make_secure_channel_keys equal the slices [0,s), [s,s+e), [s+e,s+e+b) of P_hash(secret, seed) computed by an independent "
                   "reference in the harness, with (s,e,b) transcribed from Part 7 — for every value of the symbolic nonce bytes. (2) derive_keys on a client and a server channel after a nonce renewal: "
                   "each side derives from the current nonces with secret/seed roles of Table 33, and each side's sending keys equal the other's receiving keys (nonces fully symbolic, "
                   "make_secure_channel_keys replaced by a tagging stand-in).",
    "outside": "HMAC/SHA themselves (OpenSSL FFI) - replaced by a linear mod-256 stand-in that is position-sensitive and key/data-asymmetric, so only the STRUCTURE (which bytes are hashed in which order, where keys are cut) is decided; "
               "'different nonces give different keys' (needs PRF injectivity); nonce lengths beyond 3 bytes (the code has no length-dependent branch other than loops covered by unwinding assertions)",
    "assumptions": ["hash::hmac_vec is replaced by stubs c13_keys::toy_hmac_vec; MessageDigest::sha1/sha256 return tagged handles", "alloc::fmt::format returns an empty String"],
    "tiers": {
        "quick": {"groups": [{"filters": ["c13_q_"], "timeout": 1500, "jobs": 8}],
                  "bounds": "policies Basic128Rsa15, Basic256, Basic256Sha256; nonces of 2-3 bytes with one symbolic byte each (key slicing) / fully symbolic (agreement); unwind 90"},
        "thorough": {"groups": [{"filters": ["c13_q_", "c13_t_"], "timeout": 2400, "jobs": 8}],
                     "bounds": "adds Aes128Sha256RsaOaep, Aes256Sha256RsaPss"},
    },
}

PROPS["C16"] = {
    "module": "c16_password",
    "level": MC,
    "technique": "Kani/CBMC symbolic execution of legacy_password_decrypt with RSA decryption replaced by an arbitrary-plaintext model (all plaintext bytes, the plaintext size and the nonce symbolic); counterexamples replayed natively with real RSA",
    "kernels": ["opcua::crypto::user_identity::legacy_password_decrypt", "read_u32"],
    "explanation": "PrivateKey::private_decrypt is modelled as returning ANY plaintext of any size within its contract (a peer holds the public key and can encrypt a plaintext of its choice, so this is exactly the attacker's power). "
                   "For plaintext buffers of 4..12 bytes and nonces of 0..8 bytes, all symbolic: no panic; a password is returned only if the plaintext was framed len|password|nonce with the declared length "
                   "matching and the trailing bytes equal to the caller's nonce (nonce binding).",
    "outside": "RSA itself, padding modes and key sizes (OpenSSL FFI); PrivateKey::private_decrypt's own block loop (behind the stub); legacy_password_encrypt / the round trip (needs real RSA: exercised only in the native replay); passwords longer than 8 bytes",
    "assumptions": ["PrivateKey::private_decrypt is replaced by c16_password::model_private_decrypt (arbitrary plaintext, size <= buffer)", "alloc::fmt::format returns an empty String", UTF8_STUB],
    "tiers": tiers("c16", quick_timeout=900, qbounds="plaintext buffer 4, 6, 8 bytes with nonce 0, 4, 2 bytes; unwind 18", tbounds="adds plaintext 12 bytes with nonce 8"),
}

PROPS["C25"] = {
    "module": "c25_filter",
    "level": MC,
    "technique": "Kani/CBMC symbolic execution of DataChangeFilter::compare over symbolic samples (f64 / i32 values, status codes, two-valued timestamps), trigger and absolute deadband width, against the trigger/deadband specification",
    "kernels": ["DataChangeFilter::compare", "DataChangeFilter::compare_value_option", "DataChangeFilter::compare_value", "DataChangeFilter::abs_compare", "Variant::as_f64"],
    "explanation": "Two samples with symbolic finite Double values (thorough: all Int32 values), symbolic optional status codes, server timestamps from a two-element set, symbolic trigger and either no deadband or an absolute "
                   "deadband of symbolic finite non-negative width: the sample is reported (compare == false) exactly when the fields the trigger selects differ, where 'value differs' is |a - b| > deadband.",
    "outside": "the acceptance half of the statement (FilterType::from_filter: no verdict, see c25_filter.rs); percent deadbands; the sampling loop that keeps the last reported value (check_for_data_change needs an address space); non-numeric values under a deadband; NaN/infinite samples",
    "assumptions": ["alloc::fmt::format returns an empty String", "paths through regex::Regex::new are cut", "DateTime values are two concrete instants"],
    "tiers": {
        "quick": {"groups": [{"filters": ["c25_q_"], "timeout": 900, "jobs": 8}], "bounds": "Double samples: all finite values; deadband: all finite non-negative values; loop-free"},
        "thorough": {"groups": [{"filters": ["c25_q_", "c25_t_"], "timeout": 2400, "jobs": 8}], "bounds": "adds Int32 samples (all values) with integral deadband widths (all u32)"},
    },
}

PROPS["C32"] = {
    "module": "c32_range",
    "level": MC,
    "technique": "Kani/CBMC symbolic execution of UAString::substring / ByteString::substring over every valid 3-byte UTF-8 string / every byte string of up to 4 bytes and every byte range",
    "kernels": ["UAString::substring", "ByteString::substring"],
    "explanation": "Index-range reads of String and ByteString values: for every valid UTF-8 string of exactly 3 bytes (so 1-, 2- and 3-byte characters in every arrangement) and every byte string of 0..4 bytes, "
                   "and every range min <= max over all usize values: no panic for any string and range; for ASCII strings and for byte strings, data is returned exactly when the range starts inside the value and equals the addressed bytes clipped to the end (for ranges over multi-byte characters only totality is asserted: byte vs character indexing is not prescribed by the statement).",
    "outside": "everything else in the statement: access-level and type checks of the Write service, write-then-read through the address space, array index ranges (Vec<Variant> clone/drop glue: no verdict in 15 min), NumericRange parsing (regex)",
    "assumptions": ["alloc::fmt::format returns an empty String", "strings are exactly 3 bytes of valid UTF-8 (stubs::utf8_valid, proved equal to core::str::from_utf8 by lemma_utf8_valid)"],
    "tiers": tiers("c32", qbounds="string: 3 bytes; byte string: <= 4 bytes; range: all (min, max) with min <= max; unwind 6"),
}

PROPS["C36"] = {
    "module": "c36_acks",
    "level": MC,
    "technique": "Kani/CBMC symbolic execution of the client's acknowledgement bookkeeping (handle_notification / take_acknowledgements / re_queue_acknowledgements) along concrete event histories with two publish requests in flight; subscription ids and sequence numbers symbolic",
    "kernels": ["SubscriptionState::handle_notification", "SubscriptionState::take_acknowledgements", "SubscriptionState::re_queue_acknowledgements", "SubscriptionState::add_acknowledgement"],
    "explanation": "The call protocol of Session::publish (take the pending acknowledgements into the request; on timeout or fault re-queue them) is transcribed in the harness with up to two requests in flight. Along each history "
                   "(success/success, failure then resend, two in flight with the first failing while a newer acknowledgement was queued, both in flight carrying acknowledgements) and for all (subscription id, sequence number) pairs: "
                   "at every point each received notification has exactly one acknowledgement (pending, in flight or delivered), and at the end each was delivered to the server exactly once and nothing else was.",
    "outside": "Session::publish itself (async; a change there that stops re-queueing is invisible); symbolic event orders (16 GB); subscription deletion; more than two notifications per history",
    "assumptions": STD_CUTS + ["the harness's World::send/succeed/fail is a faithful transcription of the acknowledgement handling in client/session/services/subscriptions/service.rs"],
    "tiers": tiers("c36", qbounds="3 concrete histories of 6-8 events, 2 notifications with symbolic (u32, u32) identities; unwind 6", tbounds="adds a fourth history (both in-flight requests carry acknowledgements)"),
}

PROPS["C01"] = {
    "module": "c01_roundtrip",
    "level": MC,
    "technique": "Kani/CBMC symbolic execution of encode -> decode -> re-encode on values built from symbolic scalars, one harness per concrete shape; byte_len, bytes written, cursor position, value equality and re-encoded bytes asserted",
    "kernels": ["BinaryEncoder::{byte_len, encode, decode} for u32 i64 f64 Guid StatusCode UAString ByteString NodeId QualifiedName LocalizedText ExpandedNodeId ExtensionObject DataValue DiagnosticInfo Variant", "Variant::decode (empty arrays)", "write_i32/read_i32 family"],
    "explanation": "Per shape (which optional parts are present, string lengths 0..2, which NodeId encoding) all scalar payloads are symbolic. Asserted: encode succeeds and writes exactly byte_len() bytes; decoding those bytes succeeds, "
                   "stops exactly at byte_len, and yields an equal value (f64 by bit pattern; LocalizedText null == empty); re-encoding the decoded value reproduces the same bytes. NodeId numeric encodings at the boundaries "
                   "0/255/256/65535/65536 and namespaces 0/255/256; DataValue with and without each timestamp/picoseconds pair; empty Variant arrays with and without dimensions (cursor only: their dimensions are a documented normalisation).",
    "outside": "generated request/response structures; symbolic presence of optional parts in one query (makes the encoded length, hence the stream cursor, symbolic: out of memory) - presence is enumerated by instances instead; strings longer than 2 bytes and non-ASCII; DateTime values other than three concrete instants; non-empty Variant arrays, Variant String/NodeId/nested Variant and DiagnosticInfo (harnesses c01_x_*: no verdict in 40 min)",
    "assumptions": ["alloc::fmt::format returns an empty String", UTF8_STUB, "paths through regex::Regex::new are cut", "streams::Sink / SrcLong model Write / Read over a 28-byte buffer"],
    "tiers": {
        "quick": {"groups": [{"filters": ["c01_q_"], "timeout": 900, "jobs": 16}], "bounds": "17 shapes; payload scalars: all values; strings <= 2 ASCII bytes; buffer 28 bytes; unwind 30"},
        "thorough": {"groups": [{"filters": ["c01_q_", "c01_t_"], "timeout": 2400, "jobs": 12}], "bounds": "adds StatusCode, NodeId guid/bytestring, LocalizedText, ExpandedNodeId without URI, ExtensionObject, more DataValue shapes, empty array with two dimensions"},
    },
}

PROPS["C39"] = {
    "module": "c39_operators",
    "level": MC,
    "technique": "Kani/CBMC symbolic execution of the where-clause operator kernels on literal operands with symbolic values (operand types concrete per instance), against the Part 4 operator semantics",
    "kernels": ["operator::eq/gt/lt/gte/lte", "operator::between", "operator::and/or/not/is_null", "operator::bitwise_and/bitwise_or", "operator::compare_operands", "operator::convert", "operator::value_of (literal)", "Variant::convert"],
    "explanation": "Per pair of literal operand types (Int32/Int32, Int16/Int64, Byte/UInt16, Int32/Double; Int32 vs String and vs NULL) with symbolic values: no panic; Equals/LessThan/GreaterThan/"
                   "LessThanOrEqual/GreaterThanOrEqual agree with the mathematical comparison after the implicit conversion, and are all FALSE when no implicit conversion exists. Between is inclusive at both ends (all i32 triples). "
                   "And/Or/Not/IsNull follow the three-valued truth tables (which operand is NULL concrete, Boolean values symbolic). BitwiseAnd/Or are computed in the larger type; NULL for a non-integer operand.",
    "outside": "ContentFilter evaluation through `evaluate` (re-decoding operands from ExtensionObjects), element operands (HashSet of visited elements, cycles, out-of-range indexes), attribute operands, wrong operand counts, LIKE (regex), InList, Cast; "
               "type pairs whose conversion succeeds for some values and fails for others (UInt32/Int32, Int64/UInt64: solver errors after 6 min)",
    "assumptions": STD_CUTS + ["AddressSpace::default() (empty) - literal operands never read it"],
    "tiers": {
        "quick": {"groups": [{"filters": ["c39_q_"], "timeout": 900, "jobs": 10}], "bounds": "all values of the operand types; unwind 1 (straight-line harnesses; drop glue cut under unwinding assertions)"},
        "thorough": {"groups": [{"filters": ["c39_q_", "c39_t_"], "timeout": 1800, "jobs": 10}], "bounds": "adds Int32/Double, Byte/UInt16 and the remaining NULL placements of And/Or"},
    },
}

PROPS["C09"] = {
    "module": "c09_receive",
    "level": MC,
    "technique": "Kani/CBMC symbolic execution of SecureChannel::verify_and_remove_security over all N-byte MSG/OPN chunks (message type and declared size concrete per instance) on established channels, OpenSSL cut below the opcua wrappers; Kani's panic/overflow/index checks",
    "kernels": ["SecureChannel::verify_and_remove_security(_forensic)", "MessageChunkHeader::decode", "SymmetricSecurityHeader::decode", "AsymmetricSecurityHeader::decode", "SecureChannel::symmetric_decrypt_and_verify",
                "SecurityPolicy::symmetric_verify_signature / symmetric_decrypt / symmetric_signature_size / from_uri", "hash::verify_hmac_sha1/sha256", "AesKey::decrypt / validate_aes_args", "SecureChannel::update_message_size_and_truncate"],
    "explanation": "A chunk of N bytes whose bytes are all symbolic except the 3 message-type bytes and the declared size (concrete, equal to / below / above N) is given to verify_and_remove_security on an established server channel "
                   "(policy Basic128Rsa15 or Basic256Sha256; mode None, Sign, SignAndEncrypt). HMAC is a constant stand-in and openssl::memcmp::eq returns an ARBITRARY result, so both the rejected and the 'verified' continuation are explored; the AES cipher handle is "
                   "fabricated and Crypter::new fails, so the decrypt wrapper's own argument validation runs. Asserted: no panic, overflow or out-of-range slice anywhere on the path. Thorough: an OPN chunk naming a real policy with a null certificate must be an error; a rejected OPN must not leave the channel in a state in which the next MSG chunk panics.",
    "outside": "asymmetric decrypt/verify and padding verification (X509/RSA are FFI; the OPN harness ends at certificate parsing); what real AES/HMAC compute; chunk sizes other than the listed N; C07 (round trip) and C08 (tamper rejection), which need real MACs; "
               "the harnesses need `#[kani::unwind(2)]` + `--unwindset memcmp.0:60` because dropping an io::Error dispatches through `dyn Error` drop glue that CBMC unwinds for every candidate type to the full bound (unwind 22: no verdict; unwind 2: 6-10 min, ~20 GB)",
    "assumptions": ["hash::hmac_vec -> constant digest; MessageDigest::sha1/sha256 -> tagged handles; openssl::memcmp::eq -> arbitrary bool (after checking equal lengths); Cipher::aes_*_cbc -> fabricated handle; Cipher::block_size -> 16; Crypter::new -> Err",
                    "String::from_utf8 -> unchecked (the only string on the path is the ASCII policy URI)", "alloc::fmt::format returns an empty String", "chrono::Utc::now returns a fixed instant"],
    "tiers": {
        "quick": {"groups": [{"filters": ["c09_q_"], "timeout": 1800, "jobs": 2, "mem_gb": 30, "cbmc_args": ["--unwindset", "memcmp.0:60"]}],
                  "bounds": "N = 16 (Sign, shorter than a signature), 37 (SignAndEncrypt, ragged ciphertext), 20 (mode None), 48 with declared size 44 (Sign); unwind 2 (+ memcmp 60)"},
        "thorough": {"groups": [{"filters": ["c09_q_", "c09_t_"], "timeout": 2400, "jobs": 2, "mem_gb": 30, "cbmc_args": ["--unwindset", "memcmp.0:60"]}],
                     "bounds": "adds N = 30, 24 (SHA-256), 44 declaring 48, 16 (empty ciphertext), the OPN null-certificate chunk (89 bytes) and the two-step OPN/MSG history"},
    },
}

PROPS["C07"] = {
    "module": "c07_chunk_size",
    "level": MC,
    "technique": "Kani/CBMC symbolic execution of the chunk-size arithmetic (body_size_from_message_size, padding_size, signature_size) for every negotiated chunk size and every body size a sender may put into a chunk",
    "kernels": ["MessageChunk::body_size_from_message_size", "SecureChannel::padding_size", "SecureChannel::signature_size", "SecureChannel::make_security_header", "SecureChannel::minimum_padding"],
    "explanation": "ONLY the sentence 'chunks never exceed the negotiated chunk size' (and block alignment of the encrypted part) for symmetric MSG chunks: for every max chunk size in 8196..2^24 and every body of 1..capacity bytes, "
                   "12 + 4 + 8 + body + padding_size(body) + signature <= max chunk size, and (8 + body + padding + signature) % 16 == 0 when encrypting, for each policy/mode instance. The arithmetic is the same that Chunker::encode and apply_security perform; no buffers are involved.",
    "outside": "everything else in the statement: reassembly to the original message, sequence numbers/request id/final flag of the produced chunks (receiver side is C12), real signing/encryption and the receive path for whole messages (needs apply_security + verify_and_remove_security in one query: beyond reach, see C09 cost), asymmetric OPN chunks (RSA key sizes: FFI)",
    "assumptions": ["alloc::fmt::format returns an empty String", "chrono::Utc::now returns a fixed instant", "a chunk's size is header 12 + symmetric security header 4 + sequence header 8 + body + padding + signature (as add_space_for_padding_and_signature computes it)"],
    "tiers": tiers("c07", qbounds="max chunk size 8196..2^24, body 1..capacity: all values; policies None, Basic128Rsa15 Sign, Basic256 and Basic256Sha256 SignAndEncrypt; unwind 20",
                   tbounds="adds Aes128Sha256RsaOaep Sign and Aes256Sha256RsaPss SignAndEncrypt"),
}

PROPS["C08"] = {
    "module": "c08_tamper",
    "level": MC,
    "technique": "Kani/CBMC symbolic execution of the MAC comparison kernels (hash::verify_hmac_sha1/sha256) over every signature value, HMAC replaced by a constant stand-in; thorough: the declared-size check of verify_and_remove_security over all chunk bytes",
    "kernels": ["opcua::crypto::hash::verify_hmac_sha1", "opcua::crypto::hash::verify_hmac_sha256", "hash::hmac_sha1/hmac_sha256/hmac", "SecureChannel::verify_and_remove_security (size check; thorough)"],
    "explanation": "ONLY two kernels of the statement. (a) For every 20-/32-byte signature value: verify_hmac_* returns true exactly when every byte equals the computed MAC, and false for a signature that is one byte shorter or longer - so a change to any "
                   "signature byte, and a truncated comparison, are rejected. (b, thorough) a MSG chunk whose length differs from its declared size (bytes appended or removed) is rejected by verify_and_remove_security on a Sign-mode channel, for all chunk contents.",
    "outside": "that changing a SIGNED byte changes the MAC, that foreign keys give different MACs, decryption of modified ciphertext, certificates: all inside OpenSSL (FFI); asymmetric chunks; the path from a rejected chunk to 'never delivered as a message' (transport layer)",
    "assumptions": ["hash::hmac_vec -> constant digest (0x5A..); MessageDigest::sha1/sha256 -> tagged handles; openssl::memcmp::eq -> c08_tamper::memcmp_eq (equal-length byte comparison, its documented contract)", "alloc::fmt::format returns an empty String"],
    "tiers": {
        "quick": {"groups": [{"filters": ["c08_q_"], "timeout": 600, "jobs": 4}], "bounds": "all 2^160 / 2^256 signature values; data 3 bytes, key 2 bytes; unwind 24 / 36"},
        "thorough": {"groups": [{"filters": ["c08_q_"], "timeout": 600, "jobs": 4},
                                {"filters": ["c09_q_msg_sign_sha1_size_below_buffer", "c09_t_msg_sign_sha1_size_above_buffer"], "timeout": 2400, "jobs": 2, "mem_gb": 30, "cbmc_args": ["--unwindset", "memcmp.0:60"]}],
                     "bounds": "adds: 48-byte buffer declaring 44 bytes, 44-byte buffer declaring 48 bytes (all other bytes symbolic)"},
    },
}
