#!/bin/bash
# usage: confirm_mutants.sh <worktree> <out.tsv> <mutant dir>...
# For each mutant dir (patch.diff + demo.diff): confirm in a scratch worktree that
#   (a) demo alone: no failures, (b) patch+demo: fails, and only in tests the demo added, (c) patch alone: lib tests as baseline.
WT="$1"; OUT="$2"; shift 2
export CARGO_TARGET_DIR="$WT/target"
run_tests() { (cd "$WT" && cargo test --offline -p opcua --lib 2>&1 | grep -E "^test result:|^    [a-z_:0-9A-Z]+$|^error(\[|:)" ); }
summary() { echo "$1" | grep "^test result:" | sed -E 's/.* ([0-9]+) passed; ([0-9]+) failed.*/\1 \2/'; }
failed_names() { echo "$1" | grep -E "^    [a-z_:0-9A-Z]+$" | sort -u | tr -d ' ' | tr '\n' ','; }
clean() { git -C "$WT" checkout -q -- . ; git -C "$WT" clean -fdq -e target; }
clean
BASE=$(run_tests); read BP BF <<< "$(summary "$BASE")"; BASEFAILED=$(failed_names "$BASE")
echo "baseline: passed=$BP failed=$BF [$BASEFAILED]" >> "$OUT"
for d in "$@"; do
  id=$(basename "$d")
  clean
  if ! git -C "$WT" apply "$d/demo.diff" 2>/dev/null; then echo -e "$id\tdemo does not apply" >> "$OUT"; continue; fi
  A=$(run_tests); read AP AF <<< "$(summary "$A")"
  if ! git -C "$WT" apply "$d/patch.diff" 2>/dev/null; then echo -e "$id\tpatch does not apply on demo" >> "$OUT"; continue; fi
  B=$(run_tests); read BBP BBF <<< "$(summary "$B")"; BFN=$(failed_names "$B")
  clean
  git -C "$WT" apply "$d/patch.diff"
  C=$(run_tests); read CP CF <<< "$(summary "$C")"; CFN=$(failed_names "$C")
  clean
  ok="CONFIRMED"
  [ "${AF:-x}" != "$BF" ] && ok="REJECT(demo fails without patch or build error)"
  [ "${BBF:-0}" -le "$BF" ] 2>/dev/null && ok="REJECT(demo passes with patch)"
  [ -z "${BBF:-}" ] && ok="REJECT(patch+demo build error)"
  newtests=$(( ${AP:-0} + ${AF:-0} - BP - BF ))
  extra=$(( ${BBF:-0} - BF ))
  [ "$extra" -gt "$newtests" ] 2>/dev/null && ok="REJECT(patch+demo fails more tests than the demo added)"
  [ "${CP:-x}" != "$BP" -o "${CF:-x}" != "$BF" ] && ok="REJECT(patch alone changes lib test results: $CP/$CF [$CFN])"
  echo -e "$id\t$ok\tdemo_only=$AP/$AF\tpatch+demo=$BBP/$BBF [$BFN]\tpatch_only=$CP/$CF" >> "$OUT"
done
echo "done" >> "$OUT"
