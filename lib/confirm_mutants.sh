#!/bin/bash
# usage: confirm_mutants.sh <worktree> <out.tsv> <mutant dir>...
# For each mutant dir (patch.diff + demo.diff): confirm in a scratch worktree that
#   (a) demo alone passes, (b) patch+demo fails only in tests added by the demo, (c) patch alone: lib tests as baseline.
WT="$1"; OUT="$2"; shift 2
export CARGO_TARGET_DIR="$WT/target"
run_tests() { (cd "$WT" && cargo test --offline -p opcua --lib 2>&1 | grep -E "^test .* \.\.\. (ok|FAILED)$|^error" ); }
clean() { git -C "$WT" checkout -q -- . ; git -C "$WT" clean -fdq -e target; }
clean
BASE=$(run_tests); BASEFAIL=$(echo "$BASE" | grep -c FAILED); BASEN=$(echo "$BASE" | grep -c "^test ")
echo "baseline: $BASEN tests, $BASEFAIL failed" >> "$OUT"
for d in "$@"; do
  id=$(basename "$d")
  clean
  if ! git -C "$WT" apply "$d/demo.diff" 2>/dev/null; then echo -e "$id\tdemo does not apply" >> "$OUT"; continue; fi
  A=$(run_tests); a_fail=$(echo "$A" | grep -c FAILED); a_err=$(echo "$A" | grep -c "^error")
  if ! git -C "$WT" apply "$d/patch.diff" 2>/dev/null; then echo -e "$id\tpatch does not apply on demo" >> "$OUT"; continue; fi
  B=$(run_tests); b_fail=$(echo "$B" | grep FAILED | awk '{print $2}' | tr '\n' ','); b_err=$(echo "$B" | grep -c "^error")
  # failures with patch+demo that are baseline tests
  b_basefail=0
  for t in $(echo "$B" | grep FAILED | awk '{print $2}'); do if echo "$BASE" | grep -q "^test $t "; then b_basefail=$((b_basefail+1)); fi; done
  clean
  git -C "$WT" apply "$d/patch.diff"
  C=$(run_tests); c_fail=$(echo "$C" | grep -c FAILED); c_n=$(echo "$C" | grep -c "^test "); c_err=$(echo "$C" | grep -c "^error")
  clean
  ok="CONFIRMED"
  [ "$a_fail" != "$BASEFAIL" ] && ok="REJECT(demo fails without patch)"
  [ "$a_err" != "0" ] && ok="REJECT(demo build error)"
  [ -z "$b_fail" ] && ok="REJECT(demo passes with patch)"
  [ "$b_basefail" != "$BASEFAIL" ] && ok="REJECT(patch+demo fails baseline tests)"
  [ "$c_fail" != "$BASEFAIL" ] && ok="REJECT(patch fails existing tests)"
  [ "$c_n" != "$BASEN" ] && ok="REJECT(patch changes test count or does not build)"
  echo -e "$id\t$ok\tdemo_only_fail=$a_fail\tpatch+demo_failed=$b_fail\tpatch_only_fail=$c_fail/$c_n" >> "$OUT"
done
echo "done" >> "$OUT"
