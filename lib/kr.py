#!/usr/bin/env python3
"""Developer helper: run cargo kani for some harness filters and print one line per harness.
usage: kr.py [-j N] [-t secs] [-s slot] filter..."""
import json, os, subprocess, sys, time
from collections import Counter
args = sys.argv[1:]
j, t, slot = 8, 600, "slot0"
extra = []
mem = 16
fl = []
i = 0
while i < len(args):
    if args[i] == "-j": j = int(args[i+1]); i += 2
    elif args[i] == "-t": t = int(args[i+1]); i += 2
    elif args[i] == "-s": slot = args[i+1]; i += 2
    elif args[i] == "-m": mem = int(args[i+1]); i += 2
    elif args[i] == "-x": extra = args[i+1].split(); i += 2
    else: fl.append(args[i]); i += 1
exp = "/verif/.target/%s/kr_export_%d.json" % (slot, os.getpid())
log = "/verif/.target/kr_%s.log" % slot
cmd = ["cargo", "kani", "-Z", "stubbing", "-Z", "unstable-options", "--target-dir", "/verif/.target/" + slot,
       "--output-format", "terse", "--harness-timeout", "%ds" % t, "--export-json", exp, "-j", str(j)]
for f in fl: cmd += ["--harness", f]
if extra: cmd += ["--cbmc-args"] + extra
e = dict(os.environ); e["CARGO_NET_OFFLINE"] = "true"
t0 = time.time()
with open(log, "w") as f:
    subprocess.run(["bash", "-c", "ulimit -v %d; exec \"$@\"" % (mem * 1000000), "--"] + cmd, cwd="/verif/kani", env=e, stdout=f, stderr=subprocess.STDOUT)
if not os.path.exists(exp):
    print("no export; tail of log:"); print("".join(open(log, errors="replace").readlines()[-30:])); sys.exit(2)
d = json.load(open(exp)); os.unlink(exp)
cb = {c["harness_id"]: c.get("cbmc_stats") or {} for c in d.get("cbmc", [])}
for r in d["verification_results"]["results"]:
    ch = r.get("checks") or []
    failed = [c for c in ch if c["status"] == "Failure"]
    cov = [c for c in ch if c.get("category") == "cover"]
    unsat = [c["description"] for c in cov if c["status"] != "Satisfied"]
    st = cb.get(r["harness_id"], {})
    print("%-60s %-8s %6.0fs checks=%d solver=%.0fs symex=%.0fs %s %s" % (r["harness_id"], r["status"], r["duration_ms"]/1000, len(ch),
          st.get("runtime_solver_s") or 0, st.get("runtime_symex_s") or 0,
          ("UNCOVERED:" + ";".join(unsat)) if unsat else "", ""))
    if r["status"] != "Success":
        print("      statuses:", dict(Counter(c["status"] for c in ch)), [ (c["description"][:60], c["status"]) for c in ch if c["status"] not in ("Success","Unreachable","Failure","Satisfied")][:4])
    for c in failed[:6]:
        loc = c.get("location") or {}
        print("      FAIL: %s @ %s:%s" % (c["description"][:100], loc.get("file", "?").replace("/repo/", ""), loc.get("line")))
print("wall %.0fs" % (time.time() - t0))
