#!/usr/bin/env python3
"""Regenerates /verif/MANIFEST.json from lib/table.py and lib/not_applicable.py (kept valid at all times)."""
import json, os, subprocess, sys
ROOT = os.path.dirname(os.path.dirname(os.path.abspath(__file__)))
sys.path.insert(0, os.path.join(ROOT, "lib"))
import table, not_applicable

BASELINE = ("cd /repo && cargo nextest run --workspace --no-fail-fast --test-threads 8 --offline "
            "|| cargo test --workspace --no-fail-fast --offline")

def hook_commits():
    try:
        out = subprocess.run(["git", "-C", "/repo", "log", "--format=%H %s"], capture_output=True, text=True).stdout
        return [l.split()[0] for l in out.splitlines() if l.split(" ", 1)[1].startswith("verif hooks")]
    except Exception:
        return []

m = {
    "version": 1,
    "setup_cmd": "./check --setup",
    "hooks": {
        "guard": "cargo feature `locka99_opcua_verif` of the opcua crate (lib/Cargo.toml)",
        "enable": "the harness crate /verif/kani depends on /repo/lib by path with features = [\"locka99_opcua_verif\"]; "
                  "every check recompiles /repo/lib from the working tree through cargo kani",
        "baseline_off_cmd": BASELINE,
        "source_commits": hook_commits(),
        "add_only": True,
    },
    "engines": [{
        "name": "kani-cbmc",
        "path": "/verif/kani (harness crate), /verif/check (driver)",
        "serves_properties": sorted(table.PROPS),
        "kind_free_text": "Kani 0.68 compiles the real opcua crate to CBMC goto programs; harness inputs are kani::any(); "
                          "CBMC 6.11 + cadical decide every assertion for all inputs within the stated unwinding bounds "
                          "(unwinding assertions on); counterexamples are replayed natively before being reported",
    }],
    "checks": [],
    "not_applicable": [],
    "notes": "Bounded claims only: every pass is 'for all values within the stated sizes/unwindings'. Exit 2 = inconclusive "
             "(timeout, OOM, compiler error, non-reproducing counterexample) and is never a pass. Known findings: /verif/known_findings.json. "
             "Run the checks one at a time: C09 (and the thorough tiers of C08 and C03) use two CBMC processes of up to 30 GB each.",
}
for pid in sorted(table.PROPS):
    p = table.PROPS[pid]
    m["checks"].append({
        "property_id": pid,
        "quick_cmd": "./check %s --tier quick" % pid,
        "thorough_cmd": "./check %s --tier thorough" % pid,
        "evidence_file": "/verif/evidence/%s.json" % pid,
        "replay_cmd_template": "./check --replay {path}",
        "engine": "kani-cbmc",
        "level_claimed": {"category": p["level"], "text": p["explanation"], "design_ref": "DESIGN.md section 5, " + pid},
        "level_note": "Trusted: Kani/CBMC/cadical, the parking_lot shim, stubs listed in the evidence file. "
                      + "Assumed: " + "; ".join(p.get("assumptions", []) or ["nothing beyond the bounds"]) + ". Outside the claim: " + p.get("outside", "-"),
        "technique": p["technique"],
    })
for pid, reason in sorted(not_applicable.NA.items()):
    if pid not in table.PROPS:
        m["not_applicable"].append({"property_id": pid, "reason": reason})
json.dump(m, open(os.path.join(ROOT, "MANIFEST.json"), "w"), indent=1)
print("MANIFEST.json: %d checks, %d not applicable" % (len(m["checks"]), len(m["not_applicable"])))
