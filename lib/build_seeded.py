#!/usr/bin/env python3
"""Copies confirmed seeded changes into /verif/seeded/<id>/ with meta.json, and writes seeded/RESULTS.md.
Inputs: /tmp/mut/out*/<ID>_<N>/{patch.diff,demo.diff,notes.md}, /tmp/mut/confirm*.tsv, /tmp/mut/results.json"""
import glob, json, os, re, shutil
ROOT = "/verif/seeded"
os.makedirs(ROOT, exist_ok=True)
confirm = {}
for f in glob.glob("/tmp/mut/confirm*.tsv"):
    for line in open(f):
        p = line.rstrip("\n").split("\t")
        if len(p) >= 2 and re.match(r"C\d\d_\d", p[0]):
            confirm[p[0]] = p[1:]
results = json.load(open("/tmp/mut/results.json"))
rows = []
for d in sorted(glob.glob("/tmp/mut/out*/C*_*")):
    mid = os.path.basename(d)
    if mid not in confirm or not confirm[mid][0].startswith("CONFIRMED"):
        continue
    dst = os.path.join(ROOT, mid)
    os.makedirs(dst, exist_ok=True)
    for f in ("patch.diff", "demo.diff", "notes.md", "patch_adapted_to_repaired_tree.diff"):
        if os.path.exists(os.path.join(d, f)):
            shutil.copy(os.path.join(d, f), os.path.join(dst, f))
    notes = open(os.path.join(d, "notes.md"), errors="replace").read() if os.path.exists(os.path.join(d, "notes.md")) else ""
    needs = ""
    m = re.search(r"(?is)(needs?[^\n]*manifest[^\n]*\n+)(.{0,700})", notes)
    if m:
        needs = re.sub(r"\s+", " ", m.group(2)).strip()[:600]
    r = results.get(mid, {})
    meta = {
        "id": mid,
        "property": mid.split("_")[0],
        "breaks": "property %s (see notes.md)" % mid.split("_")[0],
        "needs_to_manifest": needs or "see notes.md",
        "confirmed_by_me": {
            "how": "lib/confirm_mutants.sh in a scratch worktree of /repo: `cargo test --offline -p opcua --lib` with demo only, demo+patch, patch only",
            "result": confirm[mid],
        },
        "evaluated_with": "lib/mut_eval.sh <patch> %s [tier]  (patch applied to a scratch copy of /repo HEAD; VERIF_REPO; /repo untouched)" % mid.split("_")[0],
        "verdict": r,
    }
    json.dump(meta, open(os.path.join(dst, "meta.json"), "w"), indent=1)
    rows.append((mid, r))
with open(os.path.join(ROOT, "RESULTS.md"), "w") as f:
    f.write("# Seeded changes: which check catches which\n\n")
    f.write("rc 1 = VIOLATION reported (counterexample replayed natively); rc 2 = counterexample found by the solver but not confirmed natively (inconclusive, not a pass); rc 0 = missed; n/a = the property is not claimed.\n\n")
    f.write("| change | quick | thorough | caught by | remark |\n|---|---|---|---|---|\n")
    for mid, r in rows:
        f.write("| %s | %s | %s | %s | %s |\n" % (mid, r.get("quick", "-"), r.get("thorough", "-"), r.get("harness", ""), r.get("remark", "")))
    caught = sum(1 for _, r in rows if r.get("quick") == "rc 1" or r.get("thorough") == "rc 1")
    f.write("\n%d changes kept; %d reported as VIOLATION by a registered check.\n" % (len(rows), caught))
print(len(rows), "seeded changes")
