#!/bin/bash
# usage: mut_eval.sh <patch.diff> <ID> [tier]
# Applies a seeded change to a scratch copy of /repo (HEAD) under /tmp and runs the check against that copy
# (VERIF_REPO), leaving /repo untouched. Prints the check's verdict.
set -u
patch="$(readlink -f "$1")"; id="$2"; tier="${3:-quick}"
wt="/tmp/mrepo_lane${LANE:-0}"
rm -rf "$wt"; mkdir -p "$wt"
git -C /repo archive HEAD | tar -x -C "$wt" || exit 3
(cd "$wt" && git init -q && git apply "$patch") || { echo "patch does not apply"; rm -rf "$wt"; exit 3; }
cd /verif && VERIF_REPO="$wt" ./check "$id" --tier "$tier"; rc=$?
rm -rf "$wt"
echo "mut_eval: $patch on $id -> rc=$rc"
exit $rc
