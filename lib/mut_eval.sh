#!/bin/bash
# usage: mut_eval.sh <patch.diff> <ID> [tier]   — apply a seeded change to /repo, run the check, undo the change
set -u
patch="$1"; id="$2"; tier="${3:-quick}"
cd /repo || exit 3
if ! git diff --quiet; then echo "/repo has uncommitted changes"; exit 3; fi
git apply "$patch" || { echo "patch does not apply"; exit 3; }
cd /verif && ./check "$id" --tier "$tier"; rc=$?
git -C /repo checkout -- . ; git -C /repo clean -fdq -e target
echo "mut_eval: $patch on $id -> rc=$rc"
exit $rc
