//! Concrete-cursor Read/Write models (DESIGN.md 3.2).
use std::io::{self, Read, Write};

/// Source of exactly `N` bytes; `read_exact` is one copy loop and short reads are *assumed away*
/// (truncated input is explored by `SrcTrunc`).
pub struct SrcLong<const N: usize> {
    pub buf: [u8; N],
    pub pos: usize,
}

impl<const N: usize> SrcLong<N> {
    pub fn new(buf: [u8; N]) -> Self {
        SrcLong { buf, pos: 0 }
    }
}

impl<const N: usize> Read for SrcLong<N> {
    fn read(&mut self, out: &mut [u8]) -> io::Result<usize> {
        self.read_exact(out)?;
        Ok(out.len())
    }
    fn read_exact(&mut self, out: &mut [u8]) -> io::Result<()> {
        let n = out.len();
        #[cfg(kani)]
        kani::assume(n <= N - self.pos);
        #[cfg(not(kani))]
        assert!(n <= N - self.pos, "SrcLong exhausted (outside the modelled input space)");
        if n <= 4 {
            // loop-free for scalar-sized reads, so that harnesses over recursive decoders can use a small unwind bound
            if n > 0 {
                out[0] = self.buf[self.pos];
            }
            if n > 1 {
                out[1] = self.buf[self.pos + 1];
            }
            if n > 2 {
                out[2] = self.buf[self.pos + 2];
            }
            if n > 3 {
                out[3] = self.buf[self.pos + 3];
            }
        } else {
            let mut i = 0;
            while i < n {
                out[i] = self.buf[self.pos + i];
                i += 1;
            }
        }
        self.pos += n;
        Ok(())
    }
}

/// Source of exactly `N` bytes that reports `UnexpectedEof` when it runs out.
pub struct SrcTrunc<const N: usize> {
    pub buf: [u8; N],
    pub pos: usize,
}

impl<const N: usize> SrcTrunc<N> {
    pub fn new(buf: [u8; N]) -> Self {
        SrcTrunc { buf, pos: 0 }
    }
}

impl<const N: usize> Read for SrcTrunc<N> {
    fn read(&mut self, out: &mut [u8]) -> io::Result<usize> {
        let avail = N - self.pos;
        let n = if out.len() < avail { out.len() } else { avail };
        let mut i = 0;
        while i < n {
            out[i] = self.buf[self.pos + i];
            i += 1;
        }
        self.pos += n;
        Ok(n)
    }
    fn read_exact(&mut self, out: &mut [u8]) -> io::Result<()> {
        let n = out.len();
        if n > N - self.pos {
            self.pos = N;
            return Err(io::Error::from(io::ErrorKind::UnexpectedEof));
        }
        let mut i = 0;
        while i < n {
            out[i] = self.buf[self.pos + i];
            i += 1;
        }
        self.pos += n;
        Ok(())
    }
}

/// Sink of at most `M` bytes with a concrete cursor.
pub struct Sink<const M: usize> {
    pub buf: [u8; M],
    pub pos: usize,
}

impl<const M: usize> Sink<M> {
    pub fn new() -> Self {
        Sink { buf: [0u8; M], pos: 0 }
    }
}

impl<const M: usize> Write for Sink<M> {
    fn write(&mut self, src: &[u8]) -> io::Result<usize> {
        let n = src.len();
        assert!(n <= M - self.pos, "Sink overflow: harness buffer too small");
        let mut i = 0;
        while i < n {
            self.buf[self.pos + i] = src[i];
            i += 1;
        }
        self.pos += n;
        Ok(n)
    }
    fn write_all(&mut self, src: &[u8]) -> io::Result<()> {
        self.write(src).map(|_| ())
    }
    fn flush(&mut self) -> io::Result<()> {
        Ok(())
    }
}
