//! C07 (the chunk-size sentence only) — chunks never exceed the negotiated chunk size.
//! Kernels: `MessageChunk::body_size_from_message_size`, `SecureChannel::padding_size`, `SecureChannel::signature_size`,
//! `SecureChannel::make_security_header` (symmetric MSG chunks): pure integer arithmetic, no buffers. The sender
//! (`Chunker::encode`) cuts the message into pieces of at most `body_size_from_message_size(max_chunk_size)` bytes and
//! `apply_security` then appends `padding_size(body)` bytes of padding and the signature.
use opcua::core::comms::message_chunk::{MessageChunk, MessageChunkType};
use opcua::core::comms::secure_channel::{Role, SecureChannel};
use opcua::crypto::SecurityPolicy;
use opcua::types::{DateTime, DecodingOptions, MessageSecurityMode};

macro_rules! chunk_fits {
    ($name:ident, $policy:expr, $mode:expr) => {
        #[cfg(kani)]
        #[kani::proof]
        #[kani::stub(::std::fmt::format, crate::stubs::fmt_format)]
        #[kani::stub(::chrono::Utc::now, crate::stubs::utc_now)]
        #[kani::unwind(20)]
        pub fn $name() {
            let channel = SecureChannel::verif_new(Role::Client, $policy, $mode, 1, 1, DateTime::null(), DecodingOptions::minimal());
            let max_chunk_size: usize = kani::any();
            kani::assume(max_chunk_size >= 8196 && max_chunk_size <= (1usize << 24));
            let body_capacity = match MessageChunk::body_size_from_message_size(MessageChunkType::Message, &channel, max_chunk_size) {
                Ok(b) => b,
                Err(_) => {
                    assert!(false, "a chunk size of at least the protocol minimum has a body capacity");
                    0
                }
            };
            // any piece the sender may put into one chunk
            let body: usize = kani::any();
            kani::assume(body >= 1 && body <= body_capacity);
            let header = channel.make_security_header(MessageChunkType::Message);
            let signature = channel.signature_size(&header);
            let (padding, _) = channel.padding_size(&header, body, signature);
            // message header 12 + symmetric security header 4 + sequence header 8
            let chunk_size = 12 + 4 + 8 + body + padding + signature;
            assert!(chunk_size <= max_chunk_size, "a secured chunk never exceeds the negotiated chunk size");
            if $policy != SecurityPolicy::None && $mode == MessageSecurityMode::SignAndEncrypt {
                assert!((8 + body + padding + signature) % 16 == 0, "the encrypted part is a whole number of cipher blocks");
            }
            kani::cover!(body == body_capacity, "a full chunk");
            core::mem::forget((channel, header));
        }
    };
}
chunk_fits!(c07_q_chunk_fits_none, SecurityPolicy::None, MessageSecurityMode::None);
chunk_fits!(c07_q_chunk_fits_sign_sha1, SecurityPolicy::Basic128Rsa15, MessageSecurityMode::Sign);
chunk_fits!(c07_q_chunk_fits_encrypt_sha1, SecurityPolicy::Basic256, MessageSecurityMode::SignAndEncrypt);
chunk_fits!(c07_q_chunk_fits_encrypt_sha256, SecurityPolicy::Basic256Sha256, MessageSecurityMode::SignAndEncrypt);
chunk_fits!(c07_t_chunk_fits_sign_sha256, SecurityPolicy::Aes128Sha256RsaOaep, MessageSecurityMode::Sign);
chunk_fits!(c07_t_chunk_fits_encrypt_aes256, SecurityPolicy::Aes256Sha256RsaPss, MessageSecurityMode::SignAndEncrypt);
