//! C03 — configured decoding limits are enforced exactly.
//! Kernels: `UAString::decode`, `ByteString::decode`, `read_array`, `Variant::decode` (array length),
//! `MessageChunk::decode` (message size). The declared length is the full symbolic i32 / u32 read from the stream and the
//! configured limit is symbolic (0..=4); the stream is long enough for every accepted length (`SrcLong`).
use crate::streams::SrcLong;
use opcua::core::comms::message_chunk::MessageChunk;
use opcua::types::{
    read_array, BinaryEncoder, ByteString, DecodingOptions, LocalizedText, QualifiedName, StatusCode, UAString, Variant,
};

/// Decoding options with the three limits given and everything else default (depth 10).
pub fn opts(max_string: usize, max_byte_string: usize, max_array: usize) -> DecodingOptions {
    DecodingOptions {
        max_string_length: max_string,
        max_byte_string_length: max_byte_string,
        max_array_length: max_array,
        ..DecodingOptions::minimal()
    }
}

#[cfg(kani)]
fn any_ascii_stream<const N: usize>() -> [u8; N] {
    let b: [u8; N] = kani::any();
    b
}

fn le_i32(b: &[u8]) -> i32 {
    i32::from_le_bytes([b[0], b[1], b[2], b[3]])
}

#[cfg(kani)]
#[kani::proof]
#[kani::stub(::std::fmt::format, crate::stubs::fmt_format)]
#[kani::stub(::std::string::String::from_utf8, crate::stubs::string_from_utf8)]
#[kani::unwind(10)]
pub fn c03_q_string_limit() {
    let mut bytes: [u8; 9] = kani::any();
    // payload restricted to ASCII so that acceptance is decided by the length alone (UTF-8 validity is C02's subject)
    let mut i = 4;
    while i < 9 {
        kani::assume(bytes[i] < 0x80);
        i += 1;
    }
    let limit: usize = kani::any();
    kani::assume(limit <= 4);
    let other: usize = kani::any(); // the limits that must NOT be consulted
    let len = le_i32(&bytes);
    let mut s = SrcLong::new(bytes);
    let r = UAString::decode(&mut s, &opts(limit, other, other));
    let accept = len == -1 || (len >= 0 && len as i64 <= limit as i64);
    assert!(r.is_ok() == accept, "string accepted exactly when its declared length is within max_string_length");
    if r.is_err() {
        assert!(s.pos == 4, "a rejected string is rejected before its body is read");
    } else if len >= 0 {
        assert!(s.pos == 4 + len as usize, "an accepted string consumes exactly its length");
    }
    kani::cover!(r.is_ok() && len as i64 == limit as i64 && limit == 4, "accepted at the limit");
    kani::cover!(r.is_err() && len as i64 == limit as i64 + 1, "rejected just above the limit");
    core::mem::forget(r);
}

#[cfg(kani)]
#[kani::proof]
#[kani::stub(::std::fmt::format, crate::stubs::fmt_format)]
#[kani::stub(::std::string::String::from_utf8, crate::stubs::string_from_utf8)]
#[kani::unwind(10)]
pub fn c03_q_byte_string_limit() {
    let bytes: [u8; 9] = kani::any();
    let limit: usize = kani::any();
    kani::assume(limit <= 4);
    let other: usize = kani::any();
    let len = le_i32(&bytes);
    let mut s = SrcLong::new(bytes);
    let r = ByteString::decode(&mut s, &opts(other, limit, other));
    let accept = len == -1 || (len >= 0 && len as i64 <= limit as i64);
    assert!(r.is_ok() == accept, "byte string accepted exactly when its declared length is within max_byte_string_length");
    if r.is_err() {
        assert!(s.pos == 4, "a rejected byte string is rejected before its body is read");
    }
    kani::cover!(r.is_ok() && len as i64 == limit as i64 && limit == 4, "accepted at the limit");
    kani::cover!(r.is_err() && len as i64 == limit as i64 + 1, "rejected just above the limit");
    core::mem::forget(r);
}

#[cfg(kani)]
#[kani::proof]
#[kani::stub(::std::fmt::format, crate::stubs::fmt_format)]
#[kani::stub(::std::string::String::from_utf8, crate::stubs::string_from_utf8)]
#[kani::unwind(6)]
pub fn c03_q_array_limit() {
    let bytes: [u8; 16] = kani::any(); // length + up to 3 u32 elements
    let limit: usize = kani::any();
    kani::assume(limit <= 3);
    let other: usize = kani::any();
    let len = le_i32(&bytes);
    let mut s = SrcLong::new(bytes);
    let r: Result<Option<Vec<u32>>, StatusCode> = read_array(&mut s, &opts(other, other, limit));
    let accept = len == -1 || (len >= 0 && len as i64 <= limit as i64);
    assert!(r.is_ok() == accept, "array accepted exactly when its declared length is within max_array_length");
    if r.is_err() {
        assert!(s.pos == 4, "a rejected array is rejected before any element is read");
    } else if len >= 0 {
        assert!(s.pos == 4 + 4 * len as usize);
    }
    kani::cover!(r.is_ok() && len == 3 && limit == 3, "accepted at the limit");
    kani::cover!(r.is_err() && len as i64 == limit as i64 + 1, "rejected just above the limit");
    core::mem::forget(r);
}

/// The same string limit applies to a string nested as the second field of a QualifiedName / LocalizedText and as an
/// element of an array of strings (position independence).
#[cfg(kani)]
#[kani::proof]
#[kani::stub(::std::fmt::format, crate::stubs::fmt_format)]
#[kani::stub(::std::string::String::from_utf8, crate::stubs::string_from_utf8)]
#[kani::unwind(10)]
pub fn c03_q_nested_string_limit() {
    let mut bytes: [u8; 10] = kani::any(); // u16 namespace index + string(len + <= 4 bytes)
    let mut i = 6;
    while i < 10 {
        kani::assume(bytes[i] < 0x80);
        i += 1;
    }
    let limit: usize = kani::any();
    kani::assume(limit <= 4);
    let other: usize = kani::any();
    let len = le_i32(&bytes[2..]);
    let mut s = SrcLong::new(bytes);
    let r = QualifiedName::decode(&mut s, &opts(limit, other, other));
    let accept = len == -1 || (len >= 0 && len as i64 <= limit as i64);
    assert!(r.is_ok() == accept, "nested string accepted exactly when within max_string_length");
    if r.is_err() {
        assert!(s.pos == 6);
    }
    kani::cover!(r.is_ok() && len == 4, "accepted at the limit");
    core::mem::forget(r);
}

#[cfg(kani)]
#[kani::proof]
#[kani::stub(::std::fmt::format, crate::stubs::fmt_format)]
#[kani::stub(::std::string::String::from_utf8, crate::stubs::string_from_utf8)]
#[kani::unwind(10)]
pub fn c03_q_localized_text_string_limit() {
    let mut bytes: [u8; 13] = kani::any(); // mask + locale(len + <= 2) + text(len + <= 2)
    bytes[0] = 0x03; // both parts present (concrete dispatch byte)
    bytes[1] = 1; // locale: one ASCII byte
    bytes[2] = 0;
    bytes[3] = 0;
    bytes[4] = 0;
    kani::assume(bytes[5] < 0x80);
    let mut i = 10;
    while i < 13 {
        kani::assume(bytes[i] < 0x80);
        i += 1;
    }
    let limit: usize = kani::any();
    kani::assume(limit >= 1 && limit <= 3);
    let other: usize = kani::any();
    let len = le_i32(&bytes[6..]);
    let mut s = SrcLong::new(bytes);
    let r = LocalizedText::decode(&mut s, &opts(limit, other, other));
    let accept = len == -1 || (len >= 0 && len as i64 <= limit as i64);
    assert!(r.is_ok() == accept, "second string of a LocalizedText accepted exactly when within max_string_length");
    kani::cover!(r.is_ok() && len == 3, "accepted at the limit");
    kani::cover!(r.is_err() && len == 4, "rejected above the limit");
    core::mem::forget(r);
}

/// Variant array of Int32 (mask 0x86, concrete dispatch byte): declared array length symbolic.
#[cfg(kani)]
#[kani::proof]
#[kani::stub(::std::fmt::format, crate::stubs::fmt_format)]
#[kani::stub(::std::string::String::from_utf8, crate::stubs::string_from_utf8)]
#[kani::stub(::regex::Regex::new, crate::stubs::regex_new)]
#[kani::unwind(5)]
pub fn c03_x_variant_array_limit() {
    let mut bytes: [u8; 17] = kani::any(); // mask + length + up to 3 Int32
    bytes[0] = 0x86;
    let limit: usize = kani::any();
    kani::assume(limit <= 3);
    let other: usize = kani::any();
    let len = le_i32(&bytes[1..]);
    let mut s = SrcLong::new(bytes);
    let r = Variant::decode(&mut s, &opts(other, other, limit));
    let accept = len >= -1 && len as i64 <= limit as i64;
    assert!(r.is_ok() == accept, "variant array accepted exactly when its declared length is within max_array_length");
    if r.is_err() {
        assert!(s.pos == 5, "a rejected variant array is rejected before any element is read");
    }
    kani::cover!(r.is_ok() && len == 3, "accepted at the limit");
    kani::cover!(r.is_err() && len as i64 == limit as i64 + 1, "rejected just above the limit");
    core::mem::forget(r);
}

/// Variant multi-dimensional array (mask 0xC6): the dimensions array is itself subject to max_array_length.
#[cfg(kani)]
#[kani::proof]
#[kani::stub(::std::fmt::format, crate::stubs::fmt_format)]
#[kani::stub(::std::string::String::from_utf8, crate::stubs::string_from_utf8)]
#[kani::stub(::regex::Regex::new, crate::stubs::regex_new)]
#[kani::unwind(5)]
pub fn c03_t_variant_dimensions_limit() {
    let mut bytes: [u8; 25] = kani::any(); // mask, len=2, 2 x Int32, dims len, up to 3 dims
    bytes[0] = 0xC6;
    bytes[1] = 2;
    bytes[2] = 0;
    bytes[3] = 0;
    bytes[4] = 0;
    let limit: usize = kani::any();
    kani::assume(limit >= 2 && limit <= 3);
    let dims_len = le_i32(&bytes[13..]);
    let mut s = SrcLong::new(bytes);
    let r = Variant::decode(&mut s, &opts(8, 8, limit));
    if dims_len < -1 || dims_len as i64 > limit as i64 {
        assert!(r.is_err(), "dimensions array above max_array_length is rejected");
    }
    if r.is_ok() {
        assert!(dims_len >= 1 && dims_len as i64 <= limit as i64);
    }
    kani::cover!(r.is_ok(), "accepted");
    core::mem::forget(r);
}

/// A chunk whose declared size exceeds the maximum message size is rejected before its body is read.
#[cfg(kani)]
#[kani::proof]
#[kani::stub(::std::fmt::format, crate::stubs::fmt_format)]
#[kani::stub(::std::string::String::from_utf8, crate::stubs::string_from_utf8)]
#[kani::unwind(30)]
pub fn c03_q_chunk_size_limit() {
    let mut bytes: [u8; 28] = kani::any();
    bytes[0] = b'M';
    bytes[1] = b'S';
    bytes[2] = b'G';
    bytes[3] = b'F';
    let size = u32::from_le_bytes([bytes[4], bytes[5], bytes[6], bytes[7]]);
    let max: usize = kani::any();
    kani::assume(max <= 20);
    // sizes the stream can satisfy, or any size above the limit (which must be rejected without reading)
    kani::assume(size <= 28 || (max > 0 && size as usize > max));
    let mut o = DecodingOptions::minimal();
    o.max_message_size = max;
    let mut s = SrcLong::new(bytes);
    let r = MessageChunk::decode(&mut s, &o);
    let reject = max > 0 && size as usize > max;
    assert!(r.is_err() == reject, "chunk rejected exactly when its declared size exceeds max_message_size (0 = no limit)");
    if reject {
        assert!(matches!(r, Err(StatusCode::BadTcpMessageTooLarge)));
        assert!(s.pos == 12, "rejected before the body is read");
    }
    kani::cover!(!reject && size == 20 && max == 20, "accepted at the limit");
    kani::cover!(reject && size == u32::MAX, "huge declared size");
    core::mem::forget(r);
}
