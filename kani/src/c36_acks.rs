//! C36 — each received notification is acknowledged exactly once (client bookkeeping).
//! Kernels: `SubscriptionState::handle_notification`, `take_acknowledgements`, `re_queue_acknowledgements`
//! (client/session/services/subscriptions/state.rs). The caller's protocol (`Session::publish`, service.rs: take the
//! pending acknowledgements into the request; on failure re-queue them) is transcribed in the harness with TWO publish
//! requests in flight (the client's default `max_inflight_publish`), and the order of events is symbolic.
use opcua::client::verif_hooks::subscription_state::AckState;
use opcua::types::SubscriptionAcknowledgement;

fn count(v: &[SubscriptionAcknowledgement], sub: u32, seq: u32) -> usize {
    let mut n = 0;
    let mut i = 0;
    while i < v.len() {
        if v[i].sequence_number == seq && v[i].subscription_id == sub {
            n += 1;
        }
        i += 1;
    }
    n
}

/// The places an acknowledgement can be: pending in the state, carried by in-flight request 0 / 1, delivered.
pub struct World {
    pub st: AckState,
    pub inflight: [Option<Vec<SubscriptionAcknowledgement>>; 2],
    pub delivered: Vec<SubscriptionAcknowledgement>,
}

impl World {
    pub fn new() -> World {
        World { st: AckState::new(), inflight: [None, None], delivered: Vec::with_capacity(8) }
    }
    pub fn receive(&mut self, sub: u32, seq: u32) {
        self.st.handle_notification(sub, seq);
    }
    /// `Session::publish` builds a request from the pending acknowledgements
    pub fn send(&mut self, slot: usize) {
        self.inflight[slot] = Some(self.st.take_acknowledgements());
    }
    /// the server received the request (publish response arrives)
    pub fn succeed(&mut self, slot: usize) {
        let acks = self.inflight[slot].take().unwrap();
        self.delivered.extend(acks.into_iter());
    }
    /// timeout / service fault: `Session::publish` re-queues the acknowledgements it took
    pub fn fail(&mut self, slot: usize) {
        let acks = self.inflight[slot].take().unwrap();
        self.st.re_queue_acknowledgements(acks);
    }
    pub fn total(&self, sub: u32, seq: u32) -> usize {
        let mut n = count(self.st.pending(), sub, seq) + count(&self.delivered, sub, seq);
        if let Some(ref a) = self.inflight[0] {
            n += count(a, sub, seq);
        }
        if let Some(ref a) = self.inflight[1] {
            n += count(a, sub, seq);
        }
        n
    }
}

/// Event orders are concrete per harness (a symbolic order over Vec-backed state exhausted 16 GB for 4 events); the
/// subscription ids and sequence numbers are symbolic. At the end of each history every received notification has been
/// delivered to the server exactly once, and at every intermediate point it is in exactly one place.
macro_rules! history {
    ($name:ident, |$w:ident, $s1:ident, $a:ident, $s2:ident, $b:ident, $chk:ident| $body:block, $da:expr, $db:expr) => {
        #[cfg(kani)]
        #[kani::proof]
        #[kani::stub(::std::collections::hash_map::RandomState::new, crate::stubs::random_state_new)]
        #[kani::stub(::std::fmt::format, crate::stubs::fmt_format)]
        #[kani::stub(::regex::Regex::new, crate::stubs::regex_new)]
        #[kani::unwind(6)]
        pub fn $name() {
            let ($s1, $a, $s2, $b): (u32, u32, u32, u32) = (kani::any(), kani::any(), kani::any(), kani::any());
            kani::assume(($s1, $a) != ($s2, $b));
            let mut $w = World::new();
            let $chk = |w: &World, na: usize, nb: usize| {
                assert!(w.total($s1, $a) == na, "first notification: exactly one acknowledgement exists once received");
                assert!(w.total($s2, $b) == nb, "second notification: exactly one acknowledgement exists once received");
            };
            $body;
            assert!(count(&$w.delivered, $s1, $a) == $da && count(&$w.delivered, $s2, $b) == $db, "each notification was acknowledged to the server exactly once");
            assert!($w.delivered.len() == $da + $db, "nothing else was acknowledged");
            kani::cover!(true, "end reached");
            core::mem::forget($w);
        }
    };
}

history!(c36_q_success_then_success, |w, s1, a, s2, b, chk| {
    w.receive(s1, a); chk(&w, 1, 0);
    w.send(0); chk(&w, 1, 0);
    w.succeed(0); chk(&w, 1, 0);
    w.receive(s2, b); chk(&w, 1, 1);
    w.send(0); w.succeed(0); chk(&w, 1, 1);
    w.send(1); w.succeed(1); chk(&w, 1, 1); // an empty publish request acknowledges nothing again
}, 1, 1);

history!(c36_q_failure_is_resent_once, |w, s1, a, s2, b, chk| {
    w.receive(s1, a);
    w.send(0); chk(&w, 1, 0);
    w.fail(0); chk(&w, 1, 0);
    w.receive(s2, b); chk(&w, 1, 1);
    w.send(0); chk(&w, 1, 1);
    w.succeed(0); chk(&w, 1, 1);
    w.send(1); w.succeed(1); chk(&w, 1, 1);
}, 1, 1);

history!(c36_q_two_inflight_first_fails, |w, s1, a, s2, b, chk| {
    w.receive(s1, a);
    w.send(0); chk(&w, 1, 0);
    w.receive(s2, b); chk(&w, 1, 1); // the response to another request arrives while request 0 is in flight
    w.fail(0); chk(&w, 1, 1); // request 0 fails: its acknowledgements are re-queued next to the newer one
    w.send(1); chk(&w, 1, 1);
    w.succeed(1); chk(&w, 1, 1);
}, 1, 1);

history!(c36_t_two_inflight_both_carry, |w, s1, a, s2, b, chk| {
    w.receive(s1, a);
    w.send(0);
    w.receive(s2, b);
    w.send(1); chk(&w, 1, 1);
    w.fail(0); chk(&w, 1, 1);
    w.succeed(1); chk(&w, 1, 1);
    w.send(0); w.succeed(0); chk(&w, 1, 1);
}, 1, 1);
