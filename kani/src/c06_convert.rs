//! C06 — implicit Variant conversion never changes a numeric value; explicit casts round to nearest.
//! Kernels: `Variant::convert`, `Variant::cast`, `cast_to_integer!` (lib/src/types/variant.rs). No hooks.
//! The source VALUE is fully symbolic (every bit pattern); the target type is symbolic over the ten numeric types.
//! Oracle is written over i128 / exact f64 steps, never with the code's own operations.
use opcua::types::{Variant, VariantTypeId};

pub const TARGETS: [VariantTypeId; 10] = [
    VariantTypeId::SByte,
    VariantTypeId::Byte,
    VariantTypeId::Int16,
    VariantTypeId::UInt16,
    VariantTypeId::Int32,
    VariantTypeId::UInt32,
    VariantTypeId::Int64,
    VariantTypeId::UInt64,
    VariantTypeId::Float,
    VariantTypeId::Double,
];

#[cfg(kani)]
pub fn any_target() -> VariantTypeId {
    let i: usize = kani::any();
    kani::assume(i < 10);
    TARGETS[i]
}

/// Integer range of an integer target type.
pub fn int_range(t: VariantTypeId) -> Option<(i128, i128)> {
    Some(match t {
        VariantTypeId::SByte => (i8::MIN as i128, i8::MAX as i128),
        VariantTypeId::Byte => (0, u8::MAX as i128),
        VariantTypeId::Int16 => (i16::MIN as i128, i16::MAX as i128),
        VariantTypeId::UInt16 => (0, u16::MAX as i128),
        VariantTypeId::Int32 => (i32::MIN as i128, i32::MAX as i128),
        VariantTypeId::UInt32 => (0, u32::MAX as i128),
        VariantTypeId::Int64 => (i64::MIN as i128, i64::MAX as i128),
        VariantTypeId::UInt64 => (0, u64::MAX as i128),
        _ => return None,
    })
}

/// The integer a Variant of integer type denotes (None for non-integers).
pub fn int_value(v: &Variant) -> Option<i128> {
    Some(match *v {
        Variant::SByte(y) => y as i128,
        Variant::Byte(y) => y as i128,
        Variant::Int16(y) => y as i128,
        Variant::UInt16(y) => y as i128,
        Variant::Int32(y) => y as i128,
        Variant::UInt32(y) => y as i128,
        Variant::Int64(y) => y as i128,
        Variant::UInt64(y) => y as i128,
        _ => return None,
    })
}

fn same_f32(a: f32, b: f32) -> bool {
    a.to_bits() == b.to_bits() || (a.is_nan() && b.is_nan())
}
fn same_f64(a: f64, b: f64) -> bool {
    a.to_bits() == b.to_bits() || (a.is_nan() && b.is_nan())
}

/// Oracle for an INTEGER source denoting `x` (with `xf32`/`xf64` its nearest floats, computed by the harness from the
/// source's own type): `r` is the result of convert (must_succeed = false) or cast (must_succeed = true) to `t`.
pub fn check_from_int(x: i128, xf32: f32, xf64: f64, t: VariantTypeId, r: &Variant, must_succeed: bool) {
    match int_range(t) {
        Some((lo, hi)) => {
            let in_range = lo <= x && x <= hi;
            match *r {
                Variant::Empty => {
                    assert!(!(must_succeed && in_range), "cast of an in-range value yields no result");
                }
                _ => {
                    assert!(r.type_id() == t, "result has the target type");
                    assert!(in_range, "a value outside the target's range yields no result");
                    assert!(int_value(r) == Some(x), "integer result denotes the same number");
                }
            }
        }
        None => match *r {
            Variant::Empty => assert!(!must_succeed, "cast to a floating-point type yields a result"),
            Variant::Float(y) => {
                assert!(t == VariantTypeId::Float);
                assert!(same_f32(y, xf32), "nearest representable f32");
            }
            Variant::Double(y) => {
                assert!(t == VariantTypeId::Double);
                assert!(same_f64(y, xf64), "nearest representable f64");
            }
            _ => assert!(false, "result has the target type"),
        },
    }
}

macro_rules! convert_harness {
    ($conv:ident, $ty:ty, $ctor:path) => {
        #[cfg(kani)]
        #[kani::proof]
        #[kani::stub(::regex::Regex::new, crate::stubs::regex_new)]
        #[kani::stub(::std::fmt::format, crate::stubs::fmt_format)]
        #[kani::unwind(1)]
        pub fn $conv() {
            let x: $ty = kani::any();
            let t = any_target();
            let v = $ctor(x);
            let r = v.convert(t);
            check_from_int(x as i128, x as f32, x as f64, t, &r, false);
            kani::cover!(r.type_id() == t, "a conversion succeeded");
            kani::cover!(r.type_id() == VariantTypeId::Empty, "a conversion failed");
            core::mem::forget(r);
            core::mem::forget(v);
        }
    };
}

convert_harness!(c06_q_convert_sbyte, i8, Variant::SByte);
convert_harness!(c06_q_convert_byte, u8, Variant::Byte);
convert_harness!(c06_q_convert_int16, i16, Variant::Int16);
convert_harness!(c06_q_convert_uint16, u16, Variant::UInt16);
convert_harness!(c06_q_convert_int32, i32, Variant::Int32);
convert_harness!(c06_q_convert_uint32, u32, Variant::UInt32);
convert_harness!(c06_q_convert_int64, i64, Variant::Int64);
convert_harness!(c06_q_convert_uint64, u64, Variant::UInt64);

/// `cast` drops its intermediate `convert` result inside the real code; with a symbolic target type that is the drop
/// glue of every Variant arm (measured: 300 s timeout / out of memory). One harness per (source type, CONCRETE target).
macro_rules! cast_pair {
    ($name:ident, $ty:ty, $ctor:path, $target:expr) => {
        #[cfg(kani)]
        #[kani::proof]
        #[kani::stub(::regex::Regex::new, crate::stubs::regex_new)]
        #[kani::stub(::std::fmt::format, crate::stubs::fmt_format)]
        #[kani::unwind(1)]
        pub fn $name() {
            let x: $ty = kani::any();
            let v = $ctor(x);
            let r = v.cast($target);
            check_from_int(x as i128, x as f32, x as f64, $target, &r, true);
            kani::cover!(r.type_id() == $target, "a cast succeeded");
            core::mem::forget(r);
            core::mem::forget(v);
        }
    };
}

macro_rules! cast_all_targets {
    ($ty:ty, $ctor:path, $n0:ident, $n1:ident, $n2:ident, $n3:ident, $n4:ident, $n5:ident, $n6:ident, $n7:ident, $n8:ident, $n9:ident) => {
        cast_pair!($n0, $ty, $ctor, VariantTypeId::SByte);
        cast_pair!($n1, $ty, $ctor, VariantTypeId::Byte);
        cast_pair!($n2, $ty, $ctor, VariantTypeId::Int16);
        cast_pair!($n3, $ty, $ctor, VariantTypeId::UInt16);
        cast_pair!($n4, $ty, $ctor, VariantTypeId::Int32);
        cast_pair!($n5, $ty, $ctor, VariantTypeId::UInt32);
        cast_pair!($n6, $ty, $ctor, VariantTypeId::Int64);
        cast_pair!($n7, $ty, $ctor, VariantTypeId::UInt64);
        cast_pair!($n8, $ty, $ctor, VariantTypeId::Float);
        cast_pair!($n9, $ty, $ctor, VariantTypeId::Double);
    };
}

cast_all_targets!(i8, Variant::SByte, c06_t_cast_sbyte_sbyte, c06_t_cast_sbyte_byte, c06_t_cast_sbyte_int16, c06_t_cast_sbyte_uint16, c06_t_cast_sbyte_int32, c06_t_cast_sbyte_uint32, c06_t_cast_sbyte_int64, c06_t_cast_sbyte_uint64, c06_t_cast_sbyte_float, c06_t_cast_sbyte_double);
cast_all_targets!(u8, Variant::Byte, c06_t_cast_byte_sbyte, c06_t_cast_byte_byte, c06_t_cast_byte_int16, c06_t_cast_byte_uint16, c06_t_cast_byte_int32, c06_t_cast_byte_uint32, c06_t_cast_byte_int64, c06_t_cast_byte_uint64, c06_t_cast_byte_float, c06_t_cast_byte_double);
cast_all_targets!(i16, Variant::Int16, c06_t_cast_int16_sbyte, c06_t_cast_int16_byte, c06_t_cast_int16_int16, c06_t_cast_int16_uint16, c06_t_cast_int16_int32, c06_t_cast_int16_uint32, c06_t_cast_int16_int64, c06_t_cast_int16_uint64, c06_t_cast_int16_float, c06_t_cast_int16_double);
cast_all_targets!(u16, Variant::UInt16, c06_t_cast_uint16_sbyte, c06_t_cast_uint16_byte, c06_t_cast_uint16_int16, c06_t_cast_uint16_uint16, c06_t_cast_uint16_int32, c06_t_cast_uint16_uint32, c06_t_cast_uint16_int64, c06_t_cast_uint16_uint64, c06_t_cast_uint16_float, c06_t_cast_uint16_double);
cast_all_targets!(i32, Variant::Int32, c06_t_cast_int32_sbyte, c06_t_cast_int32_byte, c06_t_cast_int32_int16, c06_t_cast_int32_uint16, c06_t_cast_int32_int32, c06_t_cast_int32_uint32, c06_t_cast_int32_int64, c06_t_cast_int32_uint64, c06_t_cast_int32_float, c06_t_cast_int32_double);
cast_all_targets!(u32, Variant::UInt32, c06_t_cast_uint32_sbyte, c06_t_cast_uint32_byte, c06_t_cast_uint32_int16, c06_t_cast_uint32_uint16, c06_t_cast_uint32_int32, c06_t_cast_uint32_uint32, c06_t_cast_uint32_int64, c06_t_cast_uint32_uint64, c06_t_cast_uint32_float, c06_t_cast_uint32_double);
cast_all_targets!(i64, Variant::Int64, c06_t_cast_int64_sbyte, c06_t_cast_int64_byte, c06_t_cast_int64_int16, c06_t_cast_int64_uint16, c06_t_cast_int64_int32, c06_t_cast_int64_uint32, c06_t_cast_int64_int64, c06_t_cast_int64_uint64, c06_t_cast_int64_float, c06_t_cast_int64_double);
cast_all_targets!(u64, Variant::UInt64, c06_t_cast_uint64_sbyte, c06_t_cast_uint64_byte, c06_t_cast_uint64_int16, c06_t_cast_uint64_uint16, c06_t_cast_uint64_int32, c06_t_cast_uint64_uint32, c06_t_cast_uint64_int64, c06_t_cast_uint64_uint64, c06_t_cast_uint64_float, c06_t_cast_uint64_double);

/// Boolean source: true = 1, false = 0 (implicit conversion; symbolic target).
#[cfg(kani)]
#[kani::proof]
#[kani::stub(::regex::Regex::new, crate::stubs::regex_new)]
#[kani::stub(::std::fmt::format, crate::stubs::fmt_format)]
#[kani::unwind(1)]
pub fn c06_q_convert_boolean() {
    let b: bool = kani::any();
    let t = any_target();
    let v = Variant::Boolean(b);
    let x = if b { 1i128 } else { 0 };
    let xf = if b { 1.0f32 } else { 0.0 };
    let r = v.convert(t);
    check_from_int(x, xf, xf as f64, t, &r, false);
    kani::cover!(r.type_id() == t, "boolean converted");
    core::mem::forget((r, v));
}

/// Set of integers nearest to the (non-NaN) double `x`, as (first, second) — equal unless `x` is an exact tie.
/// Returns None when |x| is too large to be any 64-bit integer (or infinite).
pub fn nearest_ints(x: f64) -> Option<(i128, i128)> {
    const TWO52: f64 = 4503599627370496.0;
    const TWO100: f64 = 1267650600228229401496703205376.0;
    if !(x > -TWO100 && x < TWO100) {
        return None;
    }
    let xi = x as i128; // truncation toward zero; exact for |x| < 2^100
    if x >= TWO52 || x <= -TWO52 {
        return Some((xi, xi)); // every such double is an integer
    }
    let frac = x - (xi as f64); // exact: both below 2^52 in magnitude
    let away = if x < 0.0 { xi - 1 } else { xi + 1 };
    if frac == 0.5 || frac == -0.5 {
        Some((xi, away))
    } else if frac > 0.5 || frac < -0.5 {
        Some((away, away))
    } else {
        Some((xi, xi))
    }
}

/// Oracle for a cast from a floating-point value (given exactly as f64) to an integer type.
pub fn check_float_to_int(x: f64, t: VariantTypeId, r: &Variant) {
    let (lo, hi) = int_range(t).unwrap();
    let cands = if x.is_nan() { None } else { nearest_ints(x) };
    match *r {
        Variant::Empty => {
            if let Some((a, b)) = cands {
                let a_in = lo <= a && a <= hi;
                let b_in = lo <= b && b <= hi;
                assert!(!(a_in && b_in), "cast of a value whose rounding is in range yields no result");
            }
        }
        _ => {
            assert!(r.type_id() == t, "result has the target type");
            match cands {
                None => assert!(false, "NaN / infinite / huge value cast to an integer yields no result"),
                Some((a, b)) => {
                    let y = int_value(r).unwrap();
                    assert!(y == a || y == b, "cast rounds to nearest");
                }
            }
        }
    }
}

macro_rules! cast_float_pair {
    ($name:ident, $ty:ty, $ctor:path, $target:expr) => {
        #[cfg(kani)]
        #[kani::proof]
        #[kani::stub(::regex::Regex::new, crate::stubs::regex_new)]
        #[kani::stub(::std::fmt::format, crate::stubs::fmt_format)]
        #[kani::unwind(1)]
        pub fn $name() {
            let x: $ty = kani::any();
            let v = $ctor(x);
            let r = v.cast($target);
            check_float_to_int(x as f64, $target, &r);
            kani::cover!(r.type_id() == $target, "cast succeeded");
            kani::cover!(r.type_id() == VariantTypeId::Empty, "cast failed");
            core::mem::forget((r, v));
        }
    };
}

macro_rules! cast_float_all {
    ($ty:ty, $ctor:path, $n0:ident, $n1:ident, $n2:ident, $n3:ident, $n4:ident, $n5:ident, $n6:ident, $n7:ident) => {
        cast_float_pair!($n0, $ty, $ctor, VariantTypeId::SByte);
        cast_float_pair!($n1, $ty, $ctor, VariantTypeId::Byte);
        cast_float_pair!($n2, $ty, $ctor, VariantTypeId::Int16);
        cast_float_pair!($n3, $ty, $ctor, VariantTypeId::UInt16);
        cast_float_pair!($n4, $ty, $ctor, VariantTypeId::Int32);
        cast_float_pair!($n5, $ty, $ctor, VariantTypeId::UInt32);
        cast_float_pair!($n6, $ty, $ctor, VariantTypeId::Int64);
        cast_float_pair!($n7, $ty, $ctor, VariantTypeId::UInt64);
    };
}

cast_float_all!(f64, Variant::Double, c06_t_cast_double_sbyte, c06_t_cast_double_byte, c06_t_cast_double_int16, c06_t_cast_double_uint16, c06_t_cast_double_int32, c06_t_cast_double_uint32, c06_t_cast_double_int64, c06_t_cast_double_uint64);
cast_float_all!(f32, Variant::Float, c06_t_cast_float_sbyte, c06_t_cast_float_byte, c06_t_cast_float_int16, c06_t_cast_float_uint16, c06_t_cast_float_int32, c06_t_cast_float_uint32, c06_t_cast_float_int64, c06_t_cast_float_uint64);

/// Implicit conversion from a floating-point source: only Float -> Double may succeed, exactly; nothing converts to an
/// integer type implicitly with a changed value.
#[cfg(kani)]
#[kani::proof]
#[kani::stub(::regex::Regex::new, crate::stubs::regex_new)]
#[kani::stub(::std::fmt::format, crate::stubs::fmt_format)]
#[kani::unwind(1)]
pub fn c06_q_convert_float_double() {
    let t = any_target();
    let xf: f32 = kani::any();
    let v = Variant::Float(xf);
    let r = v.convert(t);
    match r {
        Variant::Empty => {}
        Variant::Float(y) => assert!(t == VariantTypeId::Float && same_f32(y, xf)),
        Variant::Double(y) => assert!(t == VariantTypeId::Double && same_f64(y, xf as f64), "f32 -> f64 is exact"),
        _ => {
            // an implicit float -> integer conversion must not change the number
            assert!(r.type_id() == t);
            let y = int_value(&r).unwrap();
            assert!(!xf.is_nan() && nearest_ints(xf as f64) == Some((y, y)) && (y as f64) == xf as f64);
        }
    }
    let xd: f64 = kani::any();
    let v2 = Variant::Double(xd);
    let r2 = v2.convert(t);
    match r2 {
        Variant::Empty => {}
        Variant::Double(y) => assert!(t == VariantTypeId::Double && same_f64(y, xd)),
        Variant::Float(y) => assert!(t == VariantTypeId::Float && (y as f64 == xd || (y.is_nan() && xd.is_nan())), "implicit f64 -> f32 must be exact"),
        _ => {
            assert!(r2.type_id() == t);
            let y = int_value(&r2).unwrap();
            assert!(!xd.is_nan() && nearest_ints(xd) == Some((y, y)) && (y as f64) == xd);
        }
    }
    kani::cover!(matches!(r, Variant::Double(_)), "float converted to double");
    core::mem::forget((r, r2, v, v2));
}

/// Explicit cast Double -> Float: nearest representable.
#[cfg(kani)]
#[kani::proof]
#[kani::stub(::regex::Regex::new, crate::stubs::regex_new)]
#[kani::stub(::std::fmt::format, crate::stubs::fmt_format)]
#[kani::unwind(1)]
pub fn c06_q_cast_double_float() {
    let xd: f64 = kani::any();
    let v2 = Variant::Double(xd);
    let c = v2.cast(VariantTypeId::Float);
    match c {
        Variant::Float(y) => assert!(same_f32(y, xd as f32), "cast f64 -> f32 is nearest representable"),
        _ => assert!(false, "cast Double -> Float yields a Float"),
    }
    kani::cover!(matches!(c, Variant::Float(_)), "double cast to float");
    core::mem::forget((c, v2));
}

/// cast with a SYMBOLIC target type (tractable with unwind 1: the drop glue of the intermediate convert result is cut
/// at depth 1; an unwinding assertion on a feasible path would fail the harness, so the cut is checked, not assumed).
macro_rules! cast_symbolic_target {
    ($name:ident, $ty:ty, $ctor:path) => {
        #[cfg(kani)]
        #[kani::proof]
        #[kani::stub(::regex::Regex::new, crate::stubs::regex_new)]
        #[kani::stub(::std::fmt::format, crate::stubs::fmt_format)]
        #[kani::unwind(1)]
        pub fn $name() {
            let x: $ty = kani::any();
            let t = any_target();
            let v = $ctor(x);
            let r = v.cast(t);
            check_from_int(x as i128, x as f32, x as f64, t, &r, true);
            kani::cover!(r.type_id() == t, "a cast succeeded");
            kani::cover!(r.type_id() == VariantTypeId::Empty, "a cast failed");
            core::mem::forget(r);
            core::mem::forget(v);
        }
    };
}
cast_symbolic_target!(c06_q_cast_sbyte, i8, Variant::SByte);
cast_symbolic_target!(c06_q_cast_byte, u8, Variant::Byte);
cast_symbolic_target!(c06_q_cast_int16, i16, Variant::Int16);
cast_symbolic_target!(c06_q_cast_uint16, u16, Variant::UInt16);
cast_symbolic_target!(c06_q_cast_int32, i32, Variant::Int32);
cast_symbolic_target!(c06_q_cast_uint32, u32, Variant::UInt32);
cast_symbolic_target!(c06_q_cast_int64, i64, Variant::Int64);
cast_symbolic_target!(c06_q_cast_uint64, u64, Variant::UInt64);

#[cfg(kani)]
pub fn any_int_target() -> VariantTypeId {
    let i: usize = kani::any();
    kani::assume(i < 8);
    TARGETS[i]
}

macro_rules! cast_float_symbolic_target {
    ($name:ident, $ty:ty, $ctor:path) => {
        #[cfg(kani)]
        #[kani::proof]
        #[kani::stub(::regex::Regex::new, crate::stubs::regex_new)]
        #[kani::stub(::std::fmt::format, crate::stubs::fmt_format)]
        #[kani::unwind(1)]
        pub fn $name() {
            let x: $ty = kani::any();
            let t = any_int_target();
            let v = $ctor(x);
            let r = v.cast(t);
            check_float_to_int(x as f64, t, &r);
            kani::cover!(r.type_id() == t, "cast succeeded");
            kani::cover!(r.type_id() == VariantTypeId::Empty, "cast failed");
            core::mem::forget((r, v));
        }
    };
}
cast_float_symbolic_target!(c06_q_cast_double_to_int, f64, Variant::Double);
cast_float_symbolic_target!(c06_q_cast_float_to_int, f32, Variant::Float);
