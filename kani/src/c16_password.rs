//! C16 — encrypted user passwords: decrypting any byte string returns an error rather than panicking; what decrypts
//! to a password was framed as `len | password | nonce` with the caller's nonce.
//! Kernel: `legacy_password_decrypt` (crypto/user_identity.rs). RSA (OpenSSL FFI) is replaced by a stub of
//! `PrivateKey::private_decrypt` that yields ARBITRARY plaintext bytes and an arbitrary size within its contract —
//! more permissive than real RSA (a peer knows the public key and can encrypt any plaintext of its choice).
use opcua::crypto::pkey::{PKeyError, PrivateKey, RsaPadding};
use opcua::crypto::user_identity::legacy_password_decrypt;
use opcua::types::{ByteString, StatusCode};

/// The model plaintext chosen by the harness (all symbolic values are drawn in the harness body so that a
/// counterexample replays natively with REAL RSA: see `secret_and_key`).
pub static mut MODEL_PLAIN: [u8; 16] = [0; 16];
pub static mut MODEL_N: usize = 0;
pub static mut MODEL_FAIL: bool = false;

/// Contract of `private_decrypt`: on success writes the plaintext to `dst[..n]` and returns `n <= dst.len()`.
pub fn model_private_decrypt(_key: &PrivateKey, _src: &[u8], dst: &mut [u8], _padding: RsaPadding) -> Result<usize, PKeyError> {
    unsafe {
        if MODEL_FAIL {
            return Err(PKeyError);
        }
        let mut i = 0;
        while i < dst.len() && i < 16 {
            dst[i] = MODEL_PLAIN[i];
            i += 1;
        }
        Ok(MODEL_N)
    }
}

/// Under the model checker: an opaque key handle (no method on it is executed un-stubbed; an un-stubbed FFI call
/// fails the harness as an unsupported construct) and a dummy ciphertext of the plaintext's length.
#[cfg(not(verif_playback))]
pub fn secret_and_key(plain: &[u8], _n: usize, _fail: bool) -> (ByteString, PrivateKey) {
    let key = unsafe { core::mem::transmute::<usize, PrivateKey>(8usize) };
    (ByteString::from(vec![0u8; plain.len()]), key)
}

/// Native replay: a freshly generated RSA key and the REAL ciphertext of the counterexample's plaintext, so that the
/// unmodified `legacy_password_decrypt` + OpenSSL run on exactly the plaintext the solver chose.
#[cfg(verif_playback)]
pub fn secret_and_key(plain: &[u8], n: usize, fail: bool) -> (ByteString, PrivateKey) {
    use opcua::crypto::pkey::PublicKey;
    let rsa = openssl::rsa::Rsa::generate(2048).unwrap();
    let public = openssl::rsa::Rsa::from_public_components(rsa.n().to_owned().unwrap(), rsa.e().to_owned().unwrap()).unwrap();
    let key = PrivateKey::wrap_private_key(openssl::pkey::PKey::from_rsa(rsa).unwrap());
    let public = PublicKey::wrap_public_key(openssl::pkey::PKey::from_rsa(public).unwrap());
    if fail {
        return (ByteString::from(vec![0xFFu8; 256]), key); // not a valid ciphertext: decryption fails
    }
    let mut dst = vec![0u8; 256];
    let size = public.public_encrypt(&plain[..n], &mut dst, RsaPadding::OaepSha1).unwrap();
    dst.truncate(size);
    (ByteString::from(dst), key)
}

macro_rules! decrypt_total {
    ($name:ident, $secret_len:expr, $nonce_len:expr, $unw:expr) => {
        #[cfg(kani)]
        #[kani::proof]
        #[kani::stub(::opcua::crypto::pkey::PKey::<::openssl::pkey::Private>::private_decrypt, model_private_decrypt)]
        #[kani::stub(::std::fmt::format, crate::stubs::fmt_format)]
        #[kani::stub(::std::string::String::from_utf8, crate::stubs::string_from_utf8)]
        #[kani::unwind($unw)]
        pub fn $name() {
            let plain: [u8; $secret_len] = kani::any();
            let n: usize = kani::any();
            kani::assume(n <= $secret_len);
            let fail: bool = kani::any();
            let nonce: [u8; $nonce_len] = kani::any();
            unsafe {
                let mut i = 0;
                while i < $secret_len {
                    MODEL_PLAIN[i] = plain[i];
                    i += 1;
                }
                MODEL_N = n;
                MODEL_FAIL = fail;
            }
            let (secret, key) = secret_and_key(&plain, n, fail);
            let r = legacy_password_decrypt(&secret, &nonce, &key, RsaPadding::OaepSha1); // must not panic
            if let Ok(ref pw) = r {
                // a password can only come out of a plaintext framed as len | password | nonce with the caller's nonce
                assert!(!fail && n == 4 + pw.len() + $nonce_len, "accepted plaintext has the len|password|nonce framing");
                let declared = u32::from_le_bytes([plain[0], plain[1], plain[2], plain[3]]) as usize;
                assert!(declared + 4 == n, "declared length matches");
                let mut i = 0;
                while i < $nonce_len {
                    assert!(plain[n - $nonce_len + i] == nonce[i], "bound to the nonce");
                    i += 1;
                }
            }
            if $secret_len >= 4 + $nonce_len {
                kani::cover!(r.is_ok(), "some plaintext is accepted");
            }
            kani::cover!(matches!(r, Err(StatusCode::BadDecodingError)), "some plaintext is rejected");
            core::mem::forget((r, secret, key));
        }
    };
}
decrypt_total!(c16_q_decrypt_total_s8_n2, 8, 2, 18);
decrypt_total!(c16_q_decrypt_total_s6_n4, 6, 4, 18);
decrypt_total!(c16_q_decrypt_total_s4_n0, 4, 0, 18);
decrypt_total!(c16_t_decrypt_total_s12_n8, 12, 8, 18);
