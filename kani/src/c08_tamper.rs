//! C08 (two kernels only) — modified chunks are not accepted:
//! (a) the MAC comparison (`hash::verify_hmac_sha1/sha256`) accepts a signature exactly when ALL of its bytes equal the
//!     computed MAC and it has exactly the MAC's length — so a change to any signature byte is rejected;
//! (b) a chunk whose length differs from its declared size (bytes removed or appended) is rejected by
//!     `verify_and_remove_security` before any cryptography (harness `c09_q_msg_sign_sha1_size_below_buffer` /
//!     `c09_t_msg_sign_sha1_size_above_buffer` in c09_receive.rs, which assert `is_err()`).
//! HMAC itself (OpenSSL) is a constant stand-in: that a change to a SIGNED byte changes the MAC is OpenSSL's property.
use crate::c13_keys::{md_sha1, md_sha256};
use opcua::crypto::hash::{verify_hmac_sha1, verify_hmac_sha256};

#[cfg(kani)]
pub fn const_hmac_vec(digest: openssl::hash::MessageDigest, _key: &[u8], _data: &[u8]) -> Vec<u8> {
    if digest.as_ptr() as usize == 1 {
        vec![0x5Au8; 20]
    } else {
        vec![0x5Au8; 32]
    }
}

#[cfg(not(verif_playback))]
pub fn reference_mac(len: usize, _key: &[u8], _data: &[u8]) -> Vec<u8> {
    vec![0x5Au8; len]
}
#[cfg(verif_playback)]
pub fn reference_mac(len: usize, key: &[u8], data: &[u8]) -> Vec<u8> {
    crate::c13_keys::ref_digest(len, key, data)
}

/// Faithful model of `openssl::memcmp::eq`: equal-length slices, true iff all bytes equal.
pub fn memcmp_eq(a: &[u8], b: &[u8]) -> bool {
    assert!(a.len() == b.len(), "openssl::memcmp::eq panics on slices of different length");
    let mut diff = 0u8;
    let mut i = 0;
    while i < a.len() {
        diff |= a[i] ^ b[i];
        i += 1;
    }
    diff == 0
}

macro_rules! mac_compare {
    ($name:ident, $verify:path, $len:expr, $unw:expr) => {
        #[cfg(kani)]
        #[kani::proof]
        #[kani::stub(::opcua::crypto::hash::hmac_vec, const_hmac_vec)]
        #[kani::stub(::openssl::hash::MessageDigest::sha1, md_sha1)]
        #[kani::stub(::openssl::hash::MessageDigest::sha256, md_sha256)]
        #[kani::stub(::openssl::memcmp::eq, memcmp_eq)]
        #[kani::stub(::std::fmt::format, crate::stubs::fmt_format)]
        #[kani::unwind($unw)]
        pub fn $name() {
            // the signature under test = the MAC xor a symbolic difference pattern; under the model checker the MAC is the
            // constant stand-in, in a native replay it is the real OpenSSL HMAC (so a counterexample is confirmed on real crypto)
            let delta: [u8; $len] = kani::any();
            let data: [u8; 3] = kani::any();
            let key: [u8; 2] = kani::any();
            let mac = reference_mac($len, &key, &data);
            let mut signature = [0u8; $len];
            let mut all_equal = true;
            let mut i = 0;
            while i < $len {
                signature[i] = mac[i] ^ delta[i];
                if delta[i] != 0 {
                    all_equal = false;
                }
                i += 1;
            }
            let accepted = $verify(&key, &data, &signature);
            assert!(accepted == all_equal, "a signature is accepted exactly when every byte equals the computed MAC");
            // a signature that is one byte short or long is never accepted
            assert!(!$verify(&key, &data, &signature[..$len - 1]), "a truncated signature is rejected");
            let mut longer = [0u8; $len + 1];
            let mut i = 0;
            while i < $len {
                longer[i] = mac[i];
                i += 1;
            }
            assert!(!$verify(&key, &data, &longer), "an extended signature is rejected");
            kani::cover!(accepted, "the genuine signature is accepted");
            kani::cover!(!accepted && delta[0] == 0 && delta[$len - 2] == 0, "a change in the last byte is rejected");
        }
    };
}
mac_compare!(c08_q_mac_compare_sha1, verify_hmac_sha1, 20, 24);
mac_compare!(c08_q_mac_compare_sha256, verify_hmac_sha256, 32, 36);
