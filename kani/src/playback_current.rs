// placeholder; overwritten by /verif/check --replay
