//! C23 — revised subscription and monitored item parameters respect the limits.
//! Kernels: `SubscriptionService::revise_subscription_values` (server/services/subscription.rs),
//! `MonitoredItem::sanitize_sampling_interval`, `MonitoredItem::sanitize_queue_size` (server/subscriptions/monitored_item.rs).
//! Requested values AND server limits are fully symbolic; limits are constrained by the configuration validity predicate.
use opcua::server::state::verif_hooks::{Limits, PartialServerState};
use opcua::server::subscriptions::monitored_item::verif_hooks as mi;
use opcua::server::verif_hooks::subscription_service as ss;

/// Configuration validity predicate (what a sane server configuration satisfies; stated in the evidence):
/// minimum intervals are finite and positive, 1 <= default_keep_alive <= max_keep_alive, and the maximum lifetime
/// count is at least three times the maximum keep-alive count (server.rs sets it to exactly 3x), without overflow.
#[cfg(kani)]
pub fn any_valid_limits() -> Limits {
    let l = Limits {
        max_monitored_items_per_sub: kani::any(),
        max_monitored_item_queue_size: kani::any(),
        min_publishing_interval_ms: kani::any(),
        min_sampling_interval_ms: kani::any(),
        default_keep_alive_count: kani::any(),
        max_keep_alive_count: kani::any(),
        max_lifetime_count: kani::any(),
    };
    kani::assume(l.min_publishing_interval_ms.is_finite() && l.min_publishing_interval_ms > 0.0);
    kani::assume(l.min_sampling_interval_ms.is_finite() && l.min_sampling_interval_ms > 0.0);
    kani::assume(l.default_keep_alive_count >= 1 && l.default_keep_alive_count <= l.max_keep_alive_count);
    kani::assume(l.max_keep_alive_count as u64 * 3 <= l.max_lifetime_count as u64);
    // A maximum queue size of 0 is described as "no limit (danger)" in state.rs but not in the configuration
    // documentation (config.rs); it is treated as outside the valid configuration space (stated in the evidence).
    kani::assume(l.max_monitored_item_queue_size >= 1);
    l
}

#[cfg(kani)]
#[kani::proof]
pub fn c23_q_revise_subscription_values() {
    let l = any_valid_limits();
    let st = PartialServerState::new(l);
    let req_interval: f64 = kani::any();
    let req_keep_alive: u32 = kani::any();
    let req_lifetime: u32 = kani::any();
    let (interval, keep_alive, lifetime) = ss::revise_subscription_values(st.get(), req_interval, req_keep_alive, req_lifetime);
    assert!(interval >= l.min_publishing_interval_ms, "revised publishing interval is at least the minimum");
    assert!(keep_alive >= 1, "revised keep-alive count is at least 1");
    assert!(keep_alive <= l.max_keep_alive_count, "revised keep-alive count is at most the maximum");
    assert!(lifetime as u64 >= 3 * keep_alive as u64, "revised lifetime count is at least three times the keep-alive count");
    kani::cover!(req_interval.is_nan(), "NaN interval requested");
    kani::cover!(req_keep_alive == 0 && req_lifetime == u32::MAX, "defaults and extremes requested");
    core::mem::forget(st);
}

#[cfg(kani)]
#[kani::proof]
pub fn c23_q_sanitize_sampling_interval() {
    let l = any_valid_limits();
    let st = PartialServerState::new(l);
    let req: f64 = kani::any();
    let r = mi::sanitize_sampling_interval(st.get(), req);
    assert!(r == -1.0 || r >= l.min_sampling_interval_ms, "revised sampling interval is -1 or at least the minimum");
    kani::cover!(req.is_nan(), "NaN requested");
    kani::cover!(req == f64::NEG_INFINITY, "-inf requested");
    core::mem::forget(st);
}

#[cfg(kani)]
#[kani::proof]
pub fn c23_q_sanitize_queue_size() {
    let l = any_valid_limits();
    let st = PartialServerState::new(l);
    let req: usize = kani::any();
    let r = mi::sanitize_queue_size(st.get(), req);
    assert!(r >= 1, "revised queue size is at least 1");
    assert!(r <= l.max_monitored_item_queue_size, "revised queue size is at most the server maximum");
    kani::cover!(l.max_monitored_item_queue_size == 1 && req == usize::MAX, "smallest maximum configured");
    kani::cover!(req == 0, "zero requested");
    core::mem::forget(st);
}
