//! C01 — binary encoding round-trips every valid value exactly.
//! For a value `v` built from symbolic scalars: `encode` writes exactly `byte_len()` bytes; `decode` of those bytes
//! succeeds, consumes exactly those bytes and yields an equal value; re-encoding the decoded value reproduces the
//! same bytes. One harness per concrete instantiation (named by type and shape).
use crate::streams::{Sink, SrcLong};
use opcua::types::{
    Array, BinaryEncoder, ByteString, DataValue, DateTime, DecodingOptions, DiagnosticInfo, ExpandedNodeId, ExtensionObject,
    ExtensionObjectEncoding, Guid, Identifier, LocalizedText, NodeId, QualifiedName, StatusCode, UAString, Variant, VariantTypeId,
};

pub const M: usize = 28;

pub fn opts() -> DecodingOptions {
    DecodingOptions { max_string_length: 8, max_byte_string_length: 8, max_array_length: 4, ..DecodingOptions::minimal() }
}

/// encode -> (byte_len, cursor) -> decode -> cursor -> re-encode; returns the decoded value for the equality check.
pub fn roundtrip<T: BinaryEncoder<T>>(v: &T) -> T {
    roundtrip_opt(v, true)
}

pub fn roundtrip_opt<T: BinaryEncoder<T>>(v: &T, check_reencode: bool) -> T {
    let mut sink = Sink::<M>::new();
    let n = match v.encode(&mut sink) {
        Ok(n) => n,
        Err(_) => {
            assert!(false, "encoding a valid value succeeds");
            0
        }
    };
    assert!(n == v.byte_len(), "the predicted length equals the number of bytes written");
    assert!(sink.pos == n, "encode reports the bytes it wrote");
    let mut src = SrcLong::new(sink.buf);
    let d = match T::decode(&mut src, &opts()) {
        Ok(d) => d,
        Err(_) => {
            assert!(false, "decoding an encoded valid value succeeds");
            loop {}
        }
    };
    assert!(src.pos == n, "the decoder consumes exactly the bytes the encoder wrote");
    if !check_reencode {
        return d;
    }
    let mut sink2 = Sink::<M>::new();
    let n2 = d.encode(&mut sink2).unwrap_or(usize::MAX);
    assert!(n2 == n, "re-encoding the decoded value has the same length");
    let mut i = 0;
    while i < M {
        assert!(sink2.buf[i] == sink.buf[i], "re-encoding the decoded value reproduces the same bytes");
        i += 1;
    }
    d
}

#[cfg(kani)]
fn ascii_string(len: usize) -> UAString {
    // len concrete (0..=2), content symbolic ASCII
    let mut v: Vec<u8> = Vec::with_capacity(len);
    let mut i = 0;
    while i < len {
        let b: u8 = kani::any();
        kani::assume(b < 0x80);
        v.push(b);
        i += 1;
    }
    UAString::from(unsafe { String::from_utf8_unchecked(v) })
}

#[cfg(kani)]
fn any_uastring() -> UAString {
    let k: u8 = kani::any();
    kani::assume(k < 3);
    match k {
        0 => UAString::null(),
        1 => ascii_string(0),
        _ => ascii_string(2),
    }
}

#[cfg(kani)]
fn any_bytestring() -> ByteString {
    let k: u8 = kani::any();
    kani::assume(k < 3);
    match k {
        0 => ByteString::null(),
        1 => ByteString::from(Vec::new()),
        _ => {
            let b: [u8; 2] = kani::any();
            ByteString::from(b.to_vec())
        }
    }
}

#[cfg(kani)]
fn any_guid() -> Guid {
    let b: [u8; 16] = kani::any();
    Guid::from_bytes(b)
}

#[cfg(kani)]
fn any_node_id() -> NodeId {
    let namespace: u16 = kani::any();
    let k: u8 = kani::any();
    kani::assume(k < 4);
    let identifier = match k {
        0 => Identifier::Numeric(kani::any()),
        1 => Identifier::String(ascii_string(1)),
        2 => Identifier::Guid(any_guid()),
        _ => {
            let b: [u8; 1] = kani::any();
            Identifier::ByteString(ByteString::from(b.to_vec()))
        }
    };
    NodeId { namespace, identifier }
}

macro_rules! rt {
    ($name:ident, $unw:expr, $make:expr, |$v:ident, $d:ident| $eq:expr) => {
        #[cfg(kani)]
        #[kani::proof]
        #[kani::stub(::std::fmt::format, crate::stubs::fmt_format)]
        #[kani::stub(::std::string::String::from_utf8, crate::stubs::string_from_utf8)]
        #[kani::stub(::regex::Regex::new, crate::stubs::regex_new)]
        #[kani::unwind($unw)]
        pub fn $name() {
            let $v = $make;
            let $d = roundtrip(&$v);
            assert!($eq, "the decoded value equals the original");
            kani::cover!(true, "end reached");
            core::mem::forget(($v, $d));
        }
    };
}

rt!(c01_q_u32, 30, kani::any::<u32>(), |v, d| v == d);
rt!(c01_q_i64, 30, kani::any::<i64>(), |v, d| v == d);
rt!(c01_q_f64_bits, 30, kani::any::<f64>(), |v, d| v.to_bits() == d.to_bits());
rt!(c01_q_guid, 30, any_guid(), |v, d| v == d);
rt!(c01_t_status_code, 30, StatusCode::from_bits_truncate(kani::any()), |v, d| v == d);
rt!(c01_q_uastring_null, 30, UAString::null(), |v, d| v == d && d.is_null());
rt!(c01_q_uastring_empty, 30, ascii_string(0), |v, d| v == d && !d.is_null());
rt!(c01_q_uastring_len2, 30, ascii_string(2), |v, d| v == d);
rt!(c01_q_bytestring, 30, any_bytestring(), |v, d| v == d);
/// Numeric NodeIds at the boundaries between the two-byte, four-byte and full encodings. Concrete values: a symbolic
/// namespace/value makes the encoded LENGTH symbolic, and with it the stream cursor (out of memory, measured).
#[cfg(kani)]
#[kani::proof]
#[kani::stub(::std::fmt::format, crate::stubs::fmt_format)]
#[kani::stub(::std::string::String::from_utf8, crate::stubs::string_from_utf8)]
#[kani::stub(::regex::Regex::new, crate::stubs::regex_new)]
#[kani::unwind(30)]
pub fn c01_q_node_id_numeric_boundaries() {
    const CASES: [(u16, u32); 9] = [(0, 0), (0, 255), (0, 256), (255, 65535), (255, 65536), (0, 65536), (256, 0), (1, 70000), (65535, u32::MAX)];
    let mut i = 0;
    while i < 9 {
        let v = NodeId { namespace: CASES[i].0, identifier: Identifier::Numeric(CASES[i].1) };
        let d = roundtrip(&v);
        assert!(v == d, "the decoded value equals the original");
        i += 1;
    }
    kani::cover!(true, "end reached");
}
rt!(c01_q_node_id_string, 30, NodeId { namespace: kani::any(), identifier: Identifier::String(ascii_string(1)) }, |v, d| v == d);
rt!(c01_t_node_id_guid, 30, NodeId { namespace: kani::any(), identifier: Identifier::Guid(any_guid()) }, |v, d| v == d);
rt!(c01_t_node_id_bytestring, 30, NodeId { namespace: kani::any(), identifier: Identifier::ByteString(ByteString::from(vec![kani::any::<u8>()])) }, |v, d| v == d);
rt!(c01_q_qualified_name, 30, QualifiedName { namespace_index: kani::any(), name: ascii_string(2) }, |v, d| v == d);
// null and empty parts of a LocalizedText are the same on the wire (documented normalisation)
rt!(c01_t_localized_text_both, 30, LocalizedText { locale: ascii_string(1), text: ascii_string(1) }, |v, d| v == d);
rt!(c01_t_localized_text_null_locale, 30, LocalizedText { locale: UAString::null(), text: ascii_string(1) },
    |v, d| d.locale.as_ref() == "" && v.text == d.text);
rt!(c01_x_expanded_node_id_uri_and_server, 30,
    ExpandedNodeId { node_id: NodeId { namespace: 2, identifier: Identifier::Numeric(70000) }, namespace_uri: ascii_string(1), server_index: 1 + (kani::any::<u16>() as u32) },
    |v, d| v == d);
rt!(c01_t_expanded_node_id_no_uri, 30,
    ExpandedNodeId { node_id: NodeId { namespace: 0, identifier: Identifier::Numeric(65536) }, namespace_uri: UAString::null(), server_index: 0 },
    |v, d| v.node_id == d.node_id && v.server_index == d.server_index && d.namespace_uri.as_ref() == "");
rt!(c01_t_extension_object_bytes, 30,
    ExtensionObject { node_id: NodeId { namespace: 1, identifier: Identifier::Numeric(300) },
        body: ExtensionObjectEncoding::ByteString(ByteString::from(vec![kani::any::<u8>(), kani::any::<u8>()])) },
    |v, d| v == d);
rt!(c01_t_extension_object_none, 30,
    ExtensionObject { node_id: NodeId { namespace: 0, identifier: Identifier::Numeric(17) }, body: ExtensionObjectEncoding::None },
    |v, d| v == d);

fn fixed_instant(k: u8) -> DateTime {
    // DateTime arithmetic is outside every claim: concrete instants only
    match k {
        0 => DateTime::epoch(),
        1 => DateTime::from(chrono::DateTime::<chrono::Utc>::from_timestamp(1_600_000_000, 123_456_700).unwrap()),
        _ => DateTime::endtimes(),
    }
}

/// DataValue shapes: which fields are present is concrete per instance (a symbolic presence makes the encoded length
/// and hence the stream cursor symbolic); the Int32 value, status bits and picoseconds are symbolic; timestamps are
/// concrete instants (DateTime arithmetic is outside every claim).
#[cfg(kani)]
fn data_value_shape(value: bool, status: bool, source: Option<(u8, bool)>, server: Option<(u8, bool)>) -> DataValue {
    DataValue {
        value: if value { Some(Variant::Int32(kani::any())) } else { None },
        status: if status { Some(StatusCode::from_bits_truncate(kani::any())) } else { None },
        source_picoseconds: match source { Some((_, true)) => Some(kani::any()), _ => None },
        source_timestamp: source.map(|s| fixed_instant(s.0)),
        server_picoseconds: match server { Some((_, true)) => Some(kani::any()), _ => None },
        server_timestamp: server.map(|s| fixed_instant(s.0)),
    }
}

fn int32_of(v: &Option<Variant>) -> Option<Option<i32>> {
    match v {
        None => Some(None),
        Some(Variant::Int32(x)) => Some(Some(*x)),
        _ => None,
    }
}

macro_rules! rt_dv {
    ($name:ident, $value:expr, $status:expr, $src:expr, $srv:expr) => {
        rt!($name, 30, data_value_shape($value, $status, $src, $srv), |v, d| int32_of(&v.value) == int32_of(&d.value) && int32_of(&d.value).is_some()
            && v.status == d.status && v.source_timestamp == d.source_timestamp && v.server_timestamp == d.server_timestamp
            && v.source_picoseconds == d.source_picoseconds && v.server_picoseconds == d.server_picoseconds);
    };
}
rt_dv!(c01_q_data_value_value_status, true, true, None, None);
rt_dv!(c01_q_data_value_server_timestamp_picoseconds, true, false, None, Some((1, true)));
rt_dv!(c01_t_data_value_source_timestamp_picoseconds, false, true, Some((1, true)), None);
// (all six fields need 30 bytes: larger than the 28-byte harness buffer; not registered)
rt_dv!(c01_x_data_value_all_fields, true, true, Some((0, true)), Some((2, true)));
rt_dv!(c01_t_data_value_timestamps_without_picoseconds, true, false, Some((1, false)), Some((1, false)));

#[cfg(kani)]
fn any_diag(inner: Option<Box<DiagnosticInfo>>) -> DiagnosticInfo {
    DiagnosticInfo {
        symbolic_id: Some(kani::any()),
        namespace_uri: None,
        locale: Some(kani::any()),
        localized_text: None,
        additional_info: Some(ascii_string(1)),
        inner_status_code: Some(StatusCode::from_bits_truncate(kani::any())),
        inner_diagnostic_info: inner,
    }
}

fn diag_eq(a: &DiagnosticInfo, b: &DiagnosticInfo) -> bool {
    a.symbolic_id == b.symbolic_id && a.namespace_uri == b.namespace_uri && a.locale == b.locale && a.localized_text == b.localized_text
        && a.additional_info == b.additional_info && a.inner_status_code == b.inner_status_code
}

rt!(c01_x_diagnostic_info, 30, any_diag(None), |v, d| diag_eq(&v, &d) && d.inner_diagnostic_info.is_none());

// ---- Variant: one harness per concrete shape
// (prefix c01_x_ = NOT REGISTERED: no verdict in 40 min at 8-9 GB each — Variant String/NodeId/Variant-in-Variant, Int32
// arrays of 2, DiagnosticInfo, ExpandedNodeId with URI; their clone/drop glue and symbolic-length strings are the cost)
rt!(c01_q_variant_int32, 30, Variant::Int32(kani::any()), |v, d| matches!((&v, &d), (Variant::Int32(a), Variant::Int32(b)) if a == b));
rt!(c01_q_variant_double, 30, Variant::Double(kani::any()), |v, d| matches!((&v, &d), (Variant::Double(a), Variant::Double(b)) if a.to_bits() == b.to_bits()));
rt!(c01_x_variant_string, 30, Variant::String(ascii_string(2)), |v, d| matches!((&v, &d), (Variant::String(a), Variant::String(b)) if a == b));
rt!(c01_x_variant_node_id, 30, Variant::NodeId(Box::new(NodeId { namespace: kani::any(), identifier: Identifier::Numeric(kani::any()) })),
    |v, d| matches!((&v, &d), (Variant::NodeId(a), Variant::NodeId(b)) if a == b));
rt!(c01_x_variant_in_variant, 30, Variant::Variant(Box::new(Variant::Int32(kani::any()))),
    |v, d| matches!((&v, &d), (Variant::Variant(a), Variant::Variant(b)) if matches!((&**a, &**b), (Variant::Int32(x), Variant::Int32(y)) if x == y)));

fn int_array(vals: &[i32], dims: Option<Vec<u32>>) -> Variant {
    let v: Vec<Variant> = vals.iter().map(|x| Variant::Int32(*x)).collect();
    Variant::Array(Box::new(Array { value_type: VariantTypeId::Int32, values: v, dimensions: dims }))
}

fn same_int_array(a: &Variant, b: &Variant, check_dims: bool) -> bool {
    match (a, b) {
        (Variant::Array(x), Variant::Array(y)) => {
            if x.value_type != y.value_type || x.values.len() != y.values.len() {
                return false;
            }
            let mut i = 0;
            while i < x.values.len() {
                match (&x.values[i], &y.values[i]) {
                    (Variant::Int32(p), Variant::Int32(q)) => {
                        if p != q {
                            return false;
                        }
                    }
                    _ => return false,
                }
                i += 1;
            }
            !check_dims || x.dimensions == y.dimensions
        }
        _ => false,
    }
}

rt!(c01_x_variant_array_int32_2, 30, { let a: [i32; 2] = kani::any(); int_array(&a, None) }, |v, d| same_int_array(&v, &d, true));
rt!(c01_x_variant_array_int32_dims_1x2, 30, { let a: [i32; 2] = kani::any(); int_array(&a, Some(vec![1, 2])) }, |v, d| same_int_array(&v, &d, true));
// empty arrays: the dimensions of an empty array are a documented normalisation, so only the elements are compared —
// but the decoder must still consume exactly what the encoder wrote
macro_rules! rt_empty_array {
    ($name:ident, $dims:expr) => {
        #[cfg(kani)]
        #[kani::proof]
        #[kani::stub(::std::fmt::format, crate::stubs::fmt_format)]
        #[kani::stub(::std::string::String::from_utf8, crate::stubs::string_from_utf8)]
        #[kani::stub(::regex::Regex::new, crate::stubs::regex_new)]
        #[kani::unwind(30)]
        pub fn $name() {
            let v = int_array(&[], $dims);
            // followed by a sentinel, as inside a larger message: it must still be where the decoder stops
            let d = roundtrip_opt(&v, false);
            assert!(matches!(&d, Variant::Array(a) if a.values.is_empty() && a.value_type == VariantTypeId::Int32), "an empty Int32 array comes back");
            kani::cover!(true, "end reached");
            core::mem::forget((v, d));
        }
    };
}
rt_empty_array!(c01_q_variant_empty_array, None);
rt_empty_array!(c01_q_variant_empty_array_with_dimensions, Some(vec![0]));
rt_empty_array!(c01_t_variant_empty_array_with_two_dimensions, Some(vec![0, 3]));
