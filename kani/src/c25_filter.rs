//! C25 — data change filters report exactly the changes they describe.
//! Kernels: `DataChangeFilter::compare`, `compare_value_option`, `compare_value`, `abs_compare`
//! (types/service_types/impls.rs); `FilterType::from_filter` (acceptance at monitored item creation).
use opcua::types::service_types::{DataChangeFilter, DataChangeTrigger, DeadbandType};
use opcua::types::{DataValue, DateTime, DecodingOptions, ExtensionObject, StatusCode, Variant};

#[cfg(kani)]
fn any_trigger() -> DataChangeTrigger {
    let t: u8 = kani::any();
    kani::assume(t < 3);
    match t {
        0 => DataChangeTrigger::Status,
        1 => DataChangeTrigger::StatusValue,
        _ => DataChangeTrigger::StatusValueTimestamp,
    }
}

#[cfg(kani)]
fn any_status() -> Option<StatusCode> {
    if kani::any() {
        None
    } else {
        Some(StatusCode::from_bits_truncate(kani::any()))
    }
}

fn ts(which: bool) -> Option<DateTime> {
    // two concrete instants (DateTime arithmetic is outside every claim)
    Some(DateTime::from(chrono::DateTime::<chrono::Utc>::from_timestamp(if which { 1_600_000_000 } else { 1_600_000_060 }, 0).unwrap()))
}

fn dv(value: Variant, status: Option<StatusCode>, server_ts: Option<DateTime>) -> DataValue {
    DataValue {
        value: Some(value),
        status,
        source_timestamp: None,
        source_picoseconds: None,
        server_timestamp: server_ts,
        server_picoseconds: None,
    }
}

/// Two samples with symbolic Double values, statuses and (two-valued) server timestamps; symbolic trigger; absolute
/// deadband with a symbolic finite non-negative width, or no deadband. "Reported" = !compare.
#[cfg(kani)]
#[kani::proof]
#[kani::stub(::std::fmt::format, crate::stubs::fmt_format)]
#[kani::stub(::regex::Regex::new, crate::stubs::regex_new)]
#[kani::unwind(2)]
pub fn c25_q_compare_double_absolute_deadband() {
    let (a, b): (f64, f64) = (kani::any(), kani::any());
    kani::assume(a.is_finite() && b.is_finite());
    let deadband: f64 = kani::any();
    kani::assume(deadband.is_finite() && deadband >= 0.0);
    let use_deadband: bool = kani::any();
    let trigger = any_trigger();
    let (s1, s2) = (any_status(), any_status());
    let (t1, t2): (bool, bool) = (kani::any(), kani::any());
    let filter = DataChangeFilter {
        trigger,
        deadband_type: if use_deadband { DeadbandType::Absolute as u32 } else { DeadbandType::None as u32 },
        deadband_value: deadband,
    };
    let v1 = dv(Variant::Double(a), s1, ts(t1));
    let v2 = dv(Variant::Double(b), s2, ts(t2));
    let reported = !filter.compare(&v1, &v2, None);
    let status_differs = s1 != s2;
    let value_differs = if use_deadband { (a - b).abs() > deadband } else { a != b };
    let ts_differs = t1 != t2;
    let expected = match trigger {
        DataChangeTrigger::Status => status_differs,
        DataChangeTrigger::StatusValue => status_differs || value_differs,
        DataChangeTrigger::StatusValueTimestamp => status_differs || value_differs || ts_differs,
    };
    assert!(reported == expected, "reported exactly when the fields selected by the trigger differ (value: beyond the deadband)");
    kani::cover!(reported && !status_differs && use_deadband, "value change beyond the deadband reported");
    kani::cover!(!reported && a != b, "value change within the deadband not reported");
    core::mem::forget((v1, v2));
}

/// Same for Int32 samples (as_f64 conversion) and a Boolean/String sample pair without deadband.
#[cfg(kani)]
#[kani::proof]
#[kani::stub(::std::fmt::format, crate::stubs::fmt_format)]
#[kani::stub(::regex::Regex::new, crate::stubs::regex_new)]
#[kani::unwind(2)]
pub fn c25_t_compare_int32_absolute_deadband() {
    let (a, b): (i32, i32) = (kani::any(), kani::any());
    let deadband: u32 = kani::any(); // integral deadband widths
    let trigger = any_trigger();
    let (s1, s2) = (any_status(), any_status());
    let filter = DataChangeFilter { trigger, deadband_type: DeadbandType::Absolute as u32, deadband_value: deadband as f64 };
    let v1 = dv(Variant::Int32(a), s1, ts(true));
    let v2 = dv(Variant::Int32(b), s2, ts(true));
    let reported = !filter.compare(&v1, &v2, None);
    let diff = (a as i64 - b as i64).abs();
    let value_differs = diff > deadband as i64;
    let expected = match trigger {
        DataChangeTrigger::Status => s1 != s2,
        _ => s1 != s2 || value_differs,
    };
    assert!(reported == expected, "integer samples: reported exactly when moved by more than the deadband");
    kani::cover!(reported && s1 == s2, "value change reported");
    kani::cover!(!reported && a != b, "within deadband");
    core::mem::forget((v1, v2));
}

// The acceptance half of C25 ("a filter the server accepts is never one that can never report") has no harness:
// FilterType::from_filter goes through NodeId::as_object_id (a match over ~6000 ObjectId variants) and the
// ExtensionObject encode/decode chain, and did not finish in 10 min even with a concrete filter (measured).
// Seen by reading, not claimed: from_filter accepts percent deadbands (no EU range is ever passed to compare),
// negative deadbands and unknown deadband types, for which compare_value returns Err and the item never reports a value change.
