//! C32 — attribute reads and writes never crash: the index-range kernels.
//! Kernels: `UAString::substring`, `ByteString::substring` (types/string.rs, byte_string.rs) — the kernels behind
//! `Variant::range_of` for String / ByteString values. Values and ranges symbolic; ranges satisfy the parser's validity
//! predicate (Range(min, max) has min < max).
use opcua::types::{ByteString, UAString};

/// Every valid UTF-8 string of exactly 3 bytes (1+1+1, 1+2, 2+1 or 3-byte sequences), any byte range: no panic; a
/// returned substring is the requested bytes.
#[cfg(kani)]
#[kani::proof]
#[kani::stub(::std::fmt::format, crate::stubs::fmt_format)]
#[kani::unwind(6)]
pub fn c32_q_string_substring_utf8() {
    let b: [u8; 3] = kani::any();
    kani::assume(crate::stubs::utf8_valid(&b));
    let s = UAString::from(unsafe { String::from_utf8_unchecked(b.to_vec()) });
    let (min, max): (usize, usize) = (kani::any(), kani::any());
    kani::assume(min <= max);
    let r = s.substring(min, max); // must not panic — the only thing the statement requires for non-ASCII strings
    let ascii = b[0] < 0x80 && b[1] < 0x80 && b[2] < 0x80;
    if !ascii {
        // (whether ranges over multi-byte characters count bytes or characters is not prescribed: no value oracle)
    } else if let Ok(ref sub) = r {
        let got = sub.as_ref().as_bytes();
        let hi = if max >= 3 { 2 } else { max };
        assert!(min < 3 && got.len() == hi - min + 1, "substring is the requested byte range, clipped to the string");
        let mut i = 0;
        while i < got.len() {
            assert!(got[i] == b[min + i]);
            i += 1;
        }
    } else {
        assert!(min >= 3, "for an ASCII string there is data whenever the range starts inside the string");
    }
    kani::cover!(r.is_ok() && b[0] >= 0x80, "substring of a non-ASCII string");
    kani::cover!(r.is_ok() && ascii && max > 5, "range clipped to the end of the string");
    core::mem::forget((r, s));
}

#[cfg(kani)]
#[kani::proof]
#[kani::stub(::std::fmt::format, crate::stubs::fmt_format)]
#[kani::unwind(6)]
pub fn c32_q_byte_string_substring() {
    let b: [u8; 4] = kani::any();
    let n: usize = kani::any();
    kani::assume(n <= 4);
    let bs = ByteString::from(b[..n].to_vec());
    let (min, max): (usize, usize) = (kani::any(), kani::any());
    kani::assume(min <= max);
    let r = bs.substring(min, max);
    assert!(r.is_ok() == (min < n), "data exactly when the range starts inside the byte string");
    if let Ok(ref sub) = r {
        let got = sub.value.as_ref().unwrap();
        let hi = if max >= n { n - 1 } else { max };
        assert!(got.len() == hi - min + 1);
        let mut i = 0;
        while i < got.len() {
            assert!(got[i] == b[min + i]);
            i += 1;
        }
    }
    kani::cover!(r.is_ok() && max > 10, "range clipped to the end");
    core::mem::forget((r, bs));
}

// Array index ranges (Variant::range_of / set_range_of on Variant::Array) have no harness: every formulation, down to a
// concrete range over a 3-element Int32 array with symbolic contents, ran past 15 min (clone/drop glue of Vec<Variant>).
