//! C39 — event filter operators evaluate safely and with the specified semantics (literal operands).
//! Kernels: `operator::{eq, gt, lt, gte, lte, between, and, or, not, is_null, bitwise_and, bitwise_or}`,
//! `compare_operands`, `convert`, `value_of` (server/events/operator.rs), reached through hooks that pass already-parsed
//! operands (the ExtensionObject re-decoding of `evaluate`, element operands, attribute operands and LIKE are outside).
use opcua::server::address_space::AddressSpace;
use opcua::server::verif_hooks_events::operator as op;
use opcua::types::operand::Operand;
use opcua::types::service_types::LiteralOperand;
use opcua::types::{UAString, Variant};

fn lit(v: Variant) -> Operand {
    Operand::LiteralOperand(LiteralOperand { value: v })
}

fn as_bool(r: &Result<Variant, opcua::types::StatusCode>) -> Option<bool> {
    match r {
        Ok(Variant::Boolean(b)) => Some(*b),
        _ => None,
    }
}

macro_rules! cut {
    ($(#[$m:meta])* pub fn $name:ident() $body:block) => {
        #[cfg(kani)]
        #[kani::proof]
        #[kani::stub(::std::collections::hash_map::RandomState::new, crate::stubs::random_state_new)]
        #[kani::stub(::chrono::Utc::now, crate::stubs::utc_now)]
        #[kani::stub(::std::fmt::format, crate::stubs::fmt_format)]
        #[kani::stub(::regex::Regex::new, crate::stubs::regex_new)]
        #[kani::unwind(1)]
        $(#[$m])*
        pub fn $name() $body
    };
}

/// The five comparison operators on two literals of (possibly different) numeric types: no panic; when the implicit
/// conversion to the common type succeeds (`$convertible`), each operator agrees with the mathematical comparison; when
/// it fails, every operator yields FALSE (Part 4: "returns FALSE if the implicit conversion fails").
macro_rules! compare_pair {
    ($name:ident, $t1:ty, $c1:path, $t2:ty, $c2:path, |$a:ident, $b:ident| $convertible:expr, |$x:ident, $y:ident| $lt:expr, |$p:ident, $q:ident| $eq:expr) => {
        cut! {
        pub fn $name() {
            let $a: $t1 = kani::any();
            let $b: $t2 = kani::any();
            let space = AddressSpace::default();
            let ops = [lit($c1($a)), lit($c2($b))];
            let (r_eq, r_gt, r_lt, r_gte, r_lte) = (op::eq(&ops, &space), op::gt(&ops, &space), op::lt(&ops, &space), op::gte(&ops, &space), op::lte(&ops, &space));
            let convertible: bool = $convertible;
            let (is_lt, is_eq): (bool, bool) = ({ let ($x, $y) = ($a, $b); $lt }, { let ($p, $q) = ($a, $b); $eq });
            if convertible {
                assert!(as_bool(&r_eq) == Some(is_eq), "Equals agrees with the mathematical comparison");
                assert!(as_bool(&r_lt) == Some(is_lt), "LessThan agrees with the mathematical comparison");
                assert!(as_bool(&r_gt) == Some(!is_lt && !is_eq), "GreaterThan agrees with the mathematical comparison");
                assert!(as_bool(&r_lte) == Some(is_lt || is_eq), "LessThanOrEqual agrees");
                assert!(as_bool(&r_gte) == Some(!is_lt), "GreaterThanOrEqual agrees");
            } else {
                assert!(as_bool(&r_eq) == Some(false) && as_bool(&r_lt) == Some(false) && as_bool(&r_gt) == Some(false)
                    && as_bool(&r_lte) == Some(false) && as_bool(&r_gte) == Some(false), "a failed implicit conversion makes every comparison FALSE");
            }
            kani::cover!(convertible && is_lt, "less than");
            core::mem::forget((ops, space, r_eq, r_gt, r_lt, r_gte, r_lte));
        }
        }
    };
}

compare_pair!(c39_q_compare_int32_int32, i32, Variant::Int32, i32, Variant::Int32, |a, b| true, |x, y| x < y, |p, q| p == q);
compare_pair!(c39_q_compare_int64_int16, i64, Variant::Int64, i16, Variant::Int16, |a, b| true, |x, y| x < y as i64, |p, q| p == q as i64);
compare_pair!(c39_q_compare_int16_int64, i16, Variant::Int16, i64, Variant::Int64, |a, b| true, |x, y| (x as i64) < y, |p, q| p as i64 == q);
// (pairs whose conversion succeeds for some values and fails for others — UInt32/Int32, Int64/UInt64 — make the
// converted Variant's discriminant symbolic and ended in solver errors after 6 min; the failing-conversion behaviour is
// decided on the always-failing pairs below instead)
// (NaN operands are excluded: Part 4 does not say how NaN compares, and the implementation orders it as GreaterThan)
compare_pair!(c39_t_compare_int32_double, i32, Variant::Int32, f64, Variant::Double, |a, b| { kani::assume(!b.is_nan()); true }, |x, y| (x as f64) < y, |p, q| p as f64 == q);
compare_pair!(c39_t_compare_byte_uint16, u8, Variant::Byte, u16, Variant::UInt16, |a, b| true, |x, y| (x as u16) < y, |p, q| p as u16 == q);

/// A numeric literal against a non-numeric one (no implicit conversion exists) and against NULL: FALSE, never a panic.
cut! {
pub fn c39_q_compare_int32_string_and_null() {
    let a: i32 = kani::any();
    let space = AddressSpace::default();
    let ops = [lit(Variant::Int32(a)), lit(Variant::String(UAString::from("x")))];
    let r = op::eq(&ops, &space);
    assert!(as_bool(&r) == Some(false), "Equals is FALSE when no implicit conversion is available");
    let r2 = op::gt(&ops, &space);
    assert!(as_bool(&r2) == Some(false));
    let ops2 = [lit(Variant::Int32(a)), lit(Variant::Empty)];
    let r3 = op::eq(&ops2, &space);
    assert!(as_bool(&r3) == Some(false), "Equals with a NULL operand is FALSE");
    let r4 = op::lte(&ops2, &space);
    assert!(as_bool(&r4) == Some(false));
    kani::cover!(true, "end reached");
    core::mem::forget((ops, ops2, space, r, r2, r3, r4));
}
}

/// Between: TRUE exactly when operand[1] <= operand[0] <= operand[2].
cut! {
pub fn c39_q_between_int32() {
    let (v, lo, hi): (i32, i32, i32) = (kani::any(), kani::any(), kani::any());
    let space = AddressSpace::default();
    let ops = [lit(Variant::Int32(v)), lit(Variant::Int32(lo)), lit(Variant::Int32(hi))];
    let r = op::between(&ops, &space);
    assert!(as_bool(&r) == Some(lo <= v && v <= hi), "Between is inclusive on both ends");
    kani::cover!(as_bool(&r) == Some(true), "inside");
    core::mem::forget((ops, space, r));
}
}

/// And / Or / Not / IsNull over Boolean and NULL operands follow the Part 4 three-valued truth tables. Which operand is
/// NULL is concrete per instance (a symbolic Variant discriminant opens the full drop glue: no verdict in 15 min);
/// the Boolean values are symbolic.
macro_rules! logic {
    ($name:ident, $x_null:expr, $y_null:expr) => {
        cut! {
        pub fn $name() {
            let (bx, by): (bool, bool) = (kani::any(), kani::any());
            let (tx, ty) = (if $x_null { None } else { Some(bx) }, if $y_null { None } else { Some(by) });
            let x = if $x_null { Variant::Empty } else { Variant::Boolean(bx) };
            let y = if $y_null { Variant::Empty } else { Variant::Boolean(by) };
            let space = AddressSpace::default();
            let ops = [lit(x), lit(y)];
            let r_and = op::and(&ops, &space);
            let r_or = op::or(&ops, &space);
            let r_not = op::not(&ops[..1], &space);
            let r_null = op::is_null(&ops[..1], &space);
            let exp_and = if tx == Some(false) || ty == Some(false) { Some(false) } else if tx == Some(true) && ty == Some(true) { Some(true) } else { None };
            let exp_or = if tx == Some(true) || ty == Some(true) { Some(true) } else if tx == Some(false) && ty == Some(false) { Some(false) } else { None };
            assert!(r_and.is_ok() && as_bool(&r_and) == exp_and, "And: Table 120");
            assert!(r_or.is_ok() && as_bool(&r_or) == exp_or, "Or: Table 121");
            assert!(as_bool(&r_not) == tx.map(|b| !b), "Not: NULL stays NULL");
            assert!(as_bool(&r_null) == Some(tx.is_none()), "IsNull");
            kani::cover!(true, "end reached");
            core::mem::forget((ops, space, r_and, r_or, r_not, r_null));
        }
        }
    };
}
logic!(c39_q_logic_bool_bool, false, false);
logic!(c39_q_logic_null_bool, true, false);
logic!(c39_t_logic_bool_null, false, true);
logic!(c39_t_logic_null_null, true, true);

/// Bitwise operators: same-type and mixed-width integer literals.
cut! {
pub fn c39_q_bitwise() {
    let (a, b): (u32, u16) = (kani::any(), kani::any());
    let space = AddressSpace::default();
    let ops = [lit(Variant::UInt32(a)), lit(Variant::UInt16(b))];
    let r_and = op::bitwise_and(&ops, &space);
    let r_or = op::bitwise_or(&ops, &space);
    assert!(matches!(r_and, Ok(Variant::UInt32(v)) if v == a & b as u32), "BitwiseAnd in the larger type");
    assert!(matches!(r_or, Ok(Variant::UInt32(v)) if v == a | b as u32), "BitwiseOr in the larger type");
    // an integer with a non-integer: no result, no panic
    let ops2 = [lit(Variant::UInt32(a)), lit(Variant::String(UAString::from("x")))];
    let r3 = op::bitwise_and(&ops2, &space);
    assert!(matches!(r3, Ok(Variant::Empty)), "bitwise operator on a non-integer yields NULL");
    kani::cover!(true, "end reached");
    core::mem::forget((ops, ops2, space, r_and, r_or, r3));
}
}
