//! C24 — monitored item queues keep the right values and survive resizing.
//! Kernels: `MonitoredItem::enqueue_notification_message`, `MonitoredItem::modify` (server/subscriptions/monitored_item.rs),
//! reached through the `Item` hook (constructor from scalars, enqueue of a tagged notification, queue readers).
use opcua::server::address_space::AddressSpace;
use opcua::server::state::verif_hooks::{Limits, PartialServerState};
use opcua::server::subscriptions::monitored_item::verif_hooks::Item;
use opcua::types::service_types::{MonitoredItemModifyRequest, MonitoringParameters};
use opcua::types::{ExtensionObject, MonitoringMode};

pub const QMAX: usize = 3;

/// Reference model of the queue: (tag, len) in a fixed array, oldest first.
#[derive(Clone, Copy)]
pub struct Model {
    pub tags: [u32; QMAX],
    pub len: usize,
    pub overflowed: bool,
}

impl Model {
    pub fn new() -> Model {
        Model { tags: [0; QMAX], len: 0, overflowed: false }
    }
    /// drop the oldest entry (loop-free: QMAX == 3)
    fn drop_oldest(&mut self) {
        self.tags[0] = self.tags[1];
        self.tags[1] = self.tags[2];
        self.len -= 1;
    }
    pub fn enqueue(&mut self, q: usize, discard_oldest: bool, tag: u32) {
        if self.len == q {
            if discard_oldest {
                self.drop_oldest();
            } else {
                self.len -= 1;
            }
            if q > 1 {
                self.overflowed = true;
            }
        }
        self.tags[self.len] = tag;
        self.len += 1;
    }
    /// keep the newest `q` entries (q >= 1)
    pub fn shrink(&mut self, q: usize) {
        if self.len > q {
            self.drop_oldest();
        }
        if self.len > q {
            self.drop_oldest();
        }
    }
}

fn check_entry(item: &Item, m: &Model, i: usize) {
    if i < m.len {
        match item.queue_entry(i) {
            Some((tag, _)) => assert!(tag == m.tags[i], "queue keeps the specified values in sample order"),
            None => assert!(false, "queue entry present"),
        }
    }
}

pub fn check_same(item: &Item, m: &Model) {
    assert!(item.queue_len() == m.len, "queue length as specified");
    check_entry(item, m, 0);
    check_entry(item, m, 1);
    check_entry(item, m, 2);
}

fn fixed_time() -> chrono::DateTime<chrono::Utc> {
    chrono::DateTime::<chrono::Utc>::from_timestamp(1_600_000_000, 0).unwrap()
}

#[cfg(kani)]
fn one_enqueue(item: &mut Item, m: &mut Model, q: usize, discard_oldest: bool) {
    let tag: u32 = kani::any();
    item.enqueue(tag);
    m.enqueue(q, discard_oldest, tag);
    assert!(item.queue_len() <= q, "never more entries than the queue size");
    check_same(item, m);
    if m.overflowed {
        assert!(item.queue_overflow(), "overflow is marked");
    }
}

/// Any history of 5 enqueues of symbolic values (straight-line, so that `unwind(1)` cuts the recursive drop glue of
/// discarded notifications at depth 1 — checked by the unwinding assertion, not assumed). Queue size and discard policy
/// are CONCRETE per instance: with either symbolic, the VecDeque head/len become symbolic and CBMC did not finish in
/// 15 min (measured); q in {1,2,3} x both policies = 6 instances.
macro_rules! enqueue_history {
    ($name:ident, $q:expr, $d:expr, $steps:expr) => {
        #[cfg(kani)]
        #[kani::proof]
        #[kani::stub(::std::fmt::format, crate::stubs::fmt_format)]
        #[kani::stub(::regex::Regex::new, crate::stubs::regex_new)]
        #[kani::unwind(1)]
        pub fn $name() {
            let q: usize = $q;
            let discard_oldest: bool = $d;
            let mut item = Item::new(q, discard_oldest, -1.0, MonitoringMode::Reporting, fixed_time());
            let mut m = Model::new();
            one_enqueue(&mut item, &mut m, q, discard_oldest);
            one_enqueue(&mut item, &mut m, q, discard_oldest);
            one_enqueue(&mut item, &mut m, q, discard_oldest);
            if $steps > 3 {
                one_enqueue(&mut item, &mut m, q, discard_oldest);
            }
            if $steps > 4 {
                one_enqueue(&mut item, &mut m, q, discard_oldest);
            }
            kani::cover!(m.overflowed || q == 1, "an overflow happened");
            core::mem::forget(item);
        }
    };
}
enqueue_history!(c24_q_enqueue_q1_oldest, 1, true, 3);
enqueue_history!(c24_q_enqueue_q1_newest, 1, false, 3);
enqueue_history!(c24_q_enqueue_q2_oldest, 2, true, 4);
enqueue_history!(c24_q_enqueue_q2_newest, 2, false, 4);
enqueue_history!(c24_t_enqueue_q3_oldest, 3, true, 5);
enqueue_history!(c24_t_enqueue_q3_newest, 3, false, 5);

// The resize half of C24 (MonitoredItem::modify) has no harness: see lib/table.py (C24 explanation) and DESIGN.md.
