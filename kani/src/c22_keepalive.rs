//! C22 — keep-alives keep flowing; idle subscriptions expire on time.
//! Kernel: `Subscription::update_state` (server/subscriptions/subscription.rs), one step from an ARBITRARY state that
//! satisfies the invariant below (inductive: no bound on the number of ticks or on the counters).
use opcua::server::diagnostics::ServerDiagnostics;
use opcua::server::subscriptions::subscription::verif_hooks::{CLOSED, CREATING, KEEP_ALIVE, LATE, NORMAL};
use opcua::server::subscriptions::subscription::Subscription;
use opcua::sync::RwLock;
use std::sync::Arc;

pub const A_NONE: u8 = 0;
pub const A_KEEPALIVE: u8 = 1;
pub const A_NOTIFS: u8 = 2;
pub const A_CREATED: u8 = 3;
pub const A_EXPIRED: u8 = 4;

pub struct St {
    pub state: u8,
    pub lifetime: u32,
    pub keep_alive: u32,
    pub max_lifetime: u32,
    pub max_keep_alive: u32,
    pub first_message_sent: bool,
    pub publishing_enabled: bool,
}

pub fn make(st: &St) -> Subscription {
    let diag = Arc::new(RwLock::new(ServerDiagnostics::default()));
    let mut s = Subscription::new(diag, 1, st.publishing_enabled, 100.0, st.max_lifetime, st.max_keep_alive, 0);
    s.verif_set_state(st.state);
    s.verif_set_counters(st.lifetime, st.keep_alive);
    s.verif_set_first_message_sent(st.first_message_sent);
    s
}

/// Representation invariant of a live subscription created through `revise_subscription_values` (C23):
/// 1 <= keep_alive <= max_keep_alive, 1 <= lifetime <= max_lifetime, max_lifetime >= 3 * max_keep_alive >= 3.
#[cfg(kani)]
pub fn any_live_state() -> St {
    let st = St {
        state: kani::any(),
        lifetime: kani::any(),
        keep_alive: kani::any(),
        max_lifetime: kani::any(),
        max_keep_alive: kani::any(),
        first_message_sent: kani::any(),
        publishing_enabled: kani::any(),
    };
    kani::assume(st.state == NORMAL || st.state == LATE || st.state == KEEP_ALIVE);
    kani::assume(st.max_keep_alive >= 1 && st.max_lifetime as u64 >= 3 * st.max_keep_alive as u64);
    kani::assume(st.keep_alive >= 1 && st.keep_alive <= st.max_keep_alive);
    kani::assume(st.lifetime >= 1 && st.lifetime <= st.max_lifetime);
    st
}

macro_rules! std_stubs {
    ($(#[$m:meta])* pub fn $name:ident() $body:block) => {
        #[cfg(kani)]
        #[kani::proof]
        #[kani::stub(::std::collections::hash_map::RandomState::new, crate::stubs::random_state_new)]
        #[kani::stub(::chrono::Utc::now, crate::stubs::utc_now)]
        #[kani::stub(::std::fmt::format, crate::stubs::fmt_format)]
        #[kani::stub(::regex::Regex::new, crate::stubs::regex_new)]
        $(#[$m])*
        pub fn $name() $body
    };
}

std_stubs! {
/// Obligation 1+5: from any live state and any inputs, one step never panics (no counter underflow) and preserves the
/// invariant or closes the subscription with SubscriptionExpired.
#[kani::unwind(2)]
pub fn c22_q_step_preserves_invariant() {
    let st = any_live_state();
    let mut s = make(&st);
    let rpr: bool = kani::any();
    let (na, mn, rq, te): (bool, bool, bool, bool) = (kani::any(), kani::any(), kani::any(), kani::any());
    kani::assume(!(rpr && te)); // documented precondition of update_state (callers never pass both)
    let (_h, action) = s.verif_update_state(rpr, na, mn, rq, te);
    if action == A_EXPIRED {
        assert!(s.verif_state() == CLOSED, "expired subscription is closed");
        assert!(st.lifetime == 1, "expires only when the lifetime counter has run down to 1");
    } else {
        let ns = s.verif_state();
        assert!(ns == NORMAL || ns == LATE || ns == KEEP_ALIVE, "a live subscription stays live");
        assert!(s.lifetime_counter() >= 1 && s.lifetime_counter() <= st.max_lifetime, "lifetime counter stays in 1..=max");
        assert!(s.keep_alive_counter() >= 1 && s.keep_alive_counter() <= st.max_keep_alive, "keep-alive counter stays in 1..=max");
        assert!(action != A_CREATED);
    }
    kani::cover!(action == A_EXPIRED, "expired");
    kani::cover!(action == A_KEEPALIVE, "keep-alive");
    core::mem::forget(s);
}
}

std_stubs! {
/// Obligation 2 (keep-alive progress, KeepAlive state): publishing enabled, a request queued, no notifications, timer
/// expired: either a keep-alive is returned and the counter is reset, or the counter strictly decreases.
/// With obligation 1 this is a ranking argument: a keep-alive at least every max_keep_alive expiries.
#[kani::unwind(2)]
pub fn c22_q_keepalive_progress() {
    let mut st = any_live_state();
    st.state = KEEP_ALIVE;
    st.publishing_enabled = true;
    kani::assume(st.lifetime >= 2);
    let mut s = make(&st);
    let (_h, action) = s.verif_update_state(false, false, false, true, true);
    assert!(action == A_NONE || action == A_KEEPALIVE, "nothing but a keep-alive can be sent without notifications");
    assert!(s.verif_state() == KEEP_ALIVE, "stays in KeepAlive");
    if action == A_KEEPALIVE {
        assert!(st.keep_alive == 1, "keep-alive is sent when the counter has run down");
        assert!(s.keep_alive_counter() == st.max_keep_alive, "keep-alive counter is reset after a keep-alive");
    } else {
        assert!(s.keep_alive_counter() < st.keep_alive, "keep-alive counter strictly decreases until a keep-alive is sent");
    }
    kani::cover!(action == A_KEEPALIVE, "keep-alive sent");
    kani::cover!(action == A_NONE, "counting down");
    core::mem::forget(s);
}
}

std_stubs! {
/// Obligation 2' (never expires while requests are available): healthy-client invariant
///   J := state == KeepAlive && lifetime >= keep_alive + 1
/// is preserved by every timer expiry with a request queued and no notifications, and under J nothing expires.
/// J is established by the concrete prefix checked in c22_q_first_interval_and_entry.
#[kani::unwind(2)]
pub fn c22_q_no_expiry_with_requests() {
    let mut st = any_live_state();
    st.state = KEEP_ALIVE;
    st.publishing_enabled = true;
    kani::assume(st.lifetime as u64 >= st.keep_alive as u64 + 1);
    let mut s = make(&st);
    let (_h, action) = s.verif_update_state(false, false, false, true, true);
    assert!(action != A_EXPIRED, "a subscription whose client keeps publish requests queued never expires");
    assert!(s.verif_state() == KEEP_ALIVE);
    assert!(s.lifetime_counter() as u64 >= s.keep_alive_counter() as u64 + 1, "healthy-client invariant preserved");
    // a publish request arriving in between changes nothing (state #13)
    let (_h2, a2) = s.verif_update_state(true, false, false, true, false);
    assert!(a2 == A_NONE && s.verif_state() == KEEP_ALIVE);
    assert!(s.lifetime_counter() as u64 >= s.keep_alive_counter() as u64 + 1);
    kani::cover!(action == A_KEEPALIVE, "keep-alive sent");
    core::mem::forget(s);
}
}

std_stubs! {
/// Obligation 3: creation, first interval, entry into KeepAlive. From `Subscription::new` (state Creating): the first
/// tick creates it; the next expiry with a queued request returns a keep-alive (first interval); the following expiry
/// moves to KeepAlive with the healthy-client invariant J (for every configuration except max_keep_alive == 1 with
/// max_lifetime == 3, see c22_q_corner_k1_l3).
#[kani::unwind(2)]
pub fn c22_q_first_interval_and_entry() {
    let max_keep_alive: u32 = kani::any();
    let max_lifetime: u32 = kani::any();
    let enabled: bool = kani::any();
    kani::assume(max_keep_alive >= 1 && max_lifetime as u64 >= 3 * max_keep_alive as u64);
    kani::assume(!(max_keep_alive == 1 && max_lifetime == 3));
    let diag = Arc::new(RwLock::new(ServerDiagnostics::default()));
    let mut s = Subscription::new(diag, 1, enabled, 100.0, max_lifetime, max_keep_alive, 0);
    assert!(s.verif_state() == CREATING);
    let (_h, a) = s.verif_update_state(false, false, false, true, true);
    assert!(a == A_CREATED && s.verif_state() == NORMAL && !s.message_sent());
    let (_h, a) = s.verif_update_state(false, false, false, true, true);
    assert!(a == A_KEEPALIVE, "a keep-alive is sent after the first publishing interval");
    assert!(s.verif_state() == NORMAL && s.message_sent());
    let (_h, a) = s.verif_update_state(false, false, false, true, true);
    assert!(a == A_NONE && s.verif_state() == KEEP_ALIVE, "then the subscription counts keep-alive intervals");
    assert!(s.keep_alive_counter() == max_keep_alive);
    assert!(s.lifetime_counter() as u64 >= s.keep_alive_counter() as u64 + 1, "healthy-client invariant established");
    kani::cover!(max_keep_alive == 1 && max_lifetime == 4, "smallest configuration");
    core::mem::forget(s);
}
}

std_stubs! {
/// The corner configuration max_keep_alive == 1, max_lifetime == 3 (the smallest the server grants), run concretely
/// for 6 expiries with a request always queued: keep-alives flow and the subscription never expires.
#[kani::unwind(8)]
pub fn c22_q_corner_k1_l3() {
    let enabled: bool = kani::any();
    let diag = Arc::new(RwLock::new(ServerDiagnostics::default()));
    let mut s = Subscription::new(diag, 1, enabled, 100.0, 3, 1, 0);
    let (_h, a) = s.verif_update_state(false, false, false, true, true);
    assert!(a == A_CREATED);
    let mut i = 0;
    let mut keep_alives = 0;
    while i < 6 {
        let (_h, a) = s.verif_update_state(false, false, false, true, true);
        assert!(a != A_EXPIRED, "never expires while requests are available (max_keep_alive 1, max_lifetime 3)");
        if a == A_KEEPALIVE {
            keep_alives += 1;
        }
        i += 1;
    }
    assert!(keep_alives >= 2, "keep-alives keep flowing");
    kani::cover!(keep_alives >= 2, "reached the end");
    core::mem::forget(s);
}
}

std_stubs! {
/// Obligation 4 (idle expiry): with no publish request queued and none received, every timer expiry decreases the
/// lifetime counter by exactly 1 (nothing resets it), and SubscriptionExpired is produced exactly when the counter
/// was 1. So a subscription with lifetime counter n expires at its n-th expiry from now — not before, not later.
#[kani::unwind(2)]
pub fn c22_q_idle_expiry_exact() {
    let st = any_live_state();
    let mut s = make(&st);
    let na: bool = kani::any();
    let mn: bool = kani::any();
    kani::assume(!mn || na);
    let (_h, action) = s.verif_update_state(false, na, mn, false, true);
    if st.lifetime == 1 {
        assert!(action == A_EXPIRED && s.verif_state() == CLOSED, "expires when the lifetime counter has run down");
    } else {
        assert!(action != A_EXPIRED, "does not expire early");
        assert!(action == A_NONE, "nothing can be sent without a publish request");
        assert!(s.lifetime_counter() == st.lifetime - 1, "each expiry without a publish request counts exactly once");
    }
    kani::cover!(st.lifetime == 1, "expiry");
    kani::cover!(st.lifetime == u32::MAX, "far from expiry");
    core::mem::forget(s);
}
}

std_stubs! {
/// Obligation 2'' (a keep-alive proves the client alive): whenever a step returns a keep-alive — a publish request was
/// consumed, Part 4 5.13.1.1: "the processing of a Publish response resets the lifetime counter" — the lifetime counter
/// has been reset (to the maximum, or one below when the publishing timer restarted in the same step). This is what keeps
/// a subscription alive whose client publishes intermittently (states #7, #11, #15).
#[kani::unwind(2)]
pub fn c22_q_keepalive_resets_lifetime() {
    let st = any_live_state();
    kani::assume(st.lifetime >= 2);
    let mut s = make(&st);
    let rpr: bool = kani::any();
    let (rq, te): (bool, bool) = (kani::any(), kani::any());
    kani::assume(!(rpr && te));
    let (_h, action) = s.verif_update_state(rpr, false, false, rq, te);
    if action == A_KEEPALIVE {
        assert!(s.lifetime_counter() as u64 + 1 >= st.max_lifetime as u64, "a keep-alive response resets the lifetime counter");
    }
    kani::cover!(action == A_KEEPALIVE && rpr, "keep-alive on a received publish request");
    kani::cover!(action == A_KEEPALIVE && te, "keep-alive on a timer expiry");
    core::mem::forget(s);
}
}
