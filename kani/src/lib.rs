//! Kani harnesses over the real `opcua` crate (path dependency on /repo/lib).
//! One module per property; see /verif/DESIGN.md.
#![cfg_attr(kani, feature(allocator_api))]
#![allow(dead_code, unused_imports, clippy::all)]

pub mod stubs;
pub mod streams;

pub mod c01_roundtrip;
pub mod c02_decode;
pub mod c03_limits;
pub mod c06_convert;
pub mod c07_chunk_size;
pub mod c08_tamper;
pub mod c09_receive;
pub mod c12_sequence;
pub mod c13_keys;
pub mod c16_password;
pub mod c22_keepalive;
pub mod c23_revise;
pub mod c24_queue;
pub mod c25_filter;
pub mod c26_time;
pub mod c32_range;
pub mod c36_acks;
pub mod c37_backoff;
pub mod c39_operators;

/// Native replay of a counterexample (written by /verif/check; see DESIGN.md 2.6).
#[cfg(all(kani, verif_playback))]
mod playback_current;
