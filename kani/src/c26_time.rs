//! C26 — client timestamps and wall-clock jumps cannot crash subscription processing.
//! Kernels: `Subscription::test_and_set_publishing_interval_elapsed`, the elapsed-time test of `MonitoredItem::tick`,
//! `Subscriptions::expire_stale_publish_requests`. `now` and the stored / client-supplied instant are symbolic
//! times-of-day (seconds and nanoseconds) on CONCRETE calendar dates, so that chrono's calendar arithmetic constant-folds
//! (symbolic dates do not solve: DESIGN 3.2); date pairs are instances: same day, reference a day later, reference at
//! the OPC UA null date (1601-01-01) and at end of times (9999-12-31).
use chrono::{NaiveDate, NaiveDateTime, NaiveTime, TimeZone, Utc};
use opcua::server::address_space::AddressSpace;
use opcua::server::diagnostics::ServerDiagnostics;
use opcua::server::subscriptions::monitored_item::verif_hooks::Item;
use opcua::server::subscriptions::subscription::verif_hooks::NORMAL;
use opcua::server::subscriptions::subscription::Subscription;
use opcua::server::subscriptions::subscriptions::verif_hooks::Subs;
use opcua::sync::RwLock;
use opcua::types::MonitoringMode;
use std::sync::Arc;

pub type T = chrono::DateTime<Utc>;

/// A symbolic instant on the given concrete date; also returns (seconds of day, nanos).
#[cfg(kani)]
pub fn any_time_on(y: i32, m: u32, d: u32) -> (T, u32, u32) {
    let secs: u32 = kani::any();
    let nanos: u32 = kani::any();
    kani::assume(secs < 86_400 && nanos < 1_000_000_000);
    let date = NaiveDate::from_ymd_opt(y, m, d).unwrap();
    let time = NaiveTime::from_num_seconds_from_midnight_opt(secs, nanos).unwrap();
    (Utc.from_utc_datetime(&NaiveDateTime::new(date, time)), secs, nanos)
}

/// Exact signed difference a - b in nanoseconds for two instants given as (day offset, secs, nanos).
pub fn diff_ns(a: (i64, u32, u32), b: (i64, u32, u32)) -> i128 {
    ((a.0 - b.0) as i128 * 86_400 + a.1 as i128 - b.1 as i128) * 1_000_000_000 + a.2 as i128 - b.2 as i128
}

macro_rules! cut {
    ($(#[$m:meta])* pub fn $name:ident() $body:block) => {
        #[cfg(kani)]
        #[kani::proof]
        #[kani::stub(::std::collections::hash_map::RandomState::new, crate::stubs::random_state_new)]
        #[kani::stub(::chrono::Utc::now, crate::stubs::utc_now)]
        #[kani::stub(::std::fmt::format, crate::stubs::fmt_format)]
        #[kani::stub(::regex::Regex::new, crate::stubs::regex_new)]
        $(#[$m])*
        pub fn $name() $body
    };
}

/// publishing interval elapsed test: no panic for any pair of instants; true exactly when at least the interval has
/// passed since the stored instant (interval in whole milliseconds 1..=100_000_000, the revised range).
macro_rules! interval_elapsed {
    ($name:ident, $ry:expr, $rm:expr, $rd:expr, $day_off:expr) => {
        cut! {
        #[kani::unwind(2)]
        pub fn $name() {
            let (now, ns, nn) = any_time_on(2024, 3, 10);
            let (last, ls, ln) = any_time_on($ry, $rm, $rd);
            // concrete interval: a symbolic one costs a symbolic f64 multiplication and a 64-bit division (no verdict in 10 min)
            let interval_ms: u32 = 250;
            let diag = Arc::new(RwLock::new(ServerDiagnostics::default()));
            let mut s = Subscription::new(diag, 1, true, interval_ms as f64, 30, 10, 0);
            s.verif_set_state(NORMAL);
            s.verif_set_last_time_publishing_interval_elapsed(last);
            let elapsed = s.verif_test_and_set_publishing_interval_elapsed(&now); // must not panic
            let d = diff_ns((0, ns, nn), ($day_off, ls, ln));
            if d >= interval_ms as i128 * 1_000_000 {
                assert!(elapsed, "interval has elapsed");
                assert!(s.verif_last_time_publishing_interval_elapsed() == now);
            } else if d >= 0 {
                assert!(!elapsed, "interval has not elapsed yet");
                assert!(s.verif_last_time_publishing_interval_elapsed() == last);
            }
            // (when the clock went backwards, d < 0, the statement only requires that nothing panics: whether the
            // implementation restarts the interval or counts it as elapsed is not prescribed)
            if $day_off >= 0 {
                kani::cover!(d < 0, "clock went backwards");
            }
            if $day_off <= 0 {
                kani::cover!(elapsed, "elapsed");
            }
            core::mem::forget(s);
        }
        }
    };
}
interval_elapsed!(c26_q_interval_same_day, 2024, 3, 10, 0i64);
interval_elapsed!(c26_q_interval_last_tomorrow, 2024, 3, 11, 1i64);
interval_elapsed!(c26_t_interval_last_yesterday, 2024, 3, 9, -1i64);

/// monitored item sampling: no panic for any `now` vs. last sample time.
macro_rules! item_tick {
    ($name:ident, $ry:expr, $rm:expr, $rd:expr) => {
        cut! {
        #[kani::unwind(3)]
        pub fn $name() {
            let (now, _, _) = any_time_on(2024, 3, 10);
            let (last, _, _) = any_time_on($ry, $rm, $rd);
            let interval_ms: u32 = 250;
            let mut item = Item::new(1, true, interval_ms as f64, MonitoringMode::Reporting, last);
            let space = AddressSpace::default();
            let r = item.tick(&now, &space, kani::any(), false); // must not panic
            assert!(r <= 2);
            kani::cover!(now < last, "clock went backwards");
            core::mem::forget((item, space));
        }
        }
    };
}
item_tick!(c26_q_item_tick_same_day, 2024, 3, 10);
item_tick!(c26_t_item_tick_last_tomorrow, 2024, 3, 11);

/// queued publish request with an arbitrary client timestamp: no panic; answered with a timeout fault only after its
/// timeout has elapsed since its timestamp.
macro_rules! expire_requests {
    ($name:ident, $ry:expr, $rm:expr, $rd:expr, $day_off:expr, $hint:expr) => {
        cut! {
        #[kani::unwind(3)]
        pub fn $name() {
            let (now, ns, nn) = any_time_on(2024, 3, 10);
            let (ts, ts_s, ts_n) = any_time_on($ry, $rm, $rd);
            kani::assume(ts_n % 100 == 0); // OPC UA timestamps have 100 ns resolution
            // concrete timeouts: with both symbolic the same-day instance exhausted 14 GB (measured)
            let timeout_hint: u32 = $hint;
            let server_timeout: i64 = 30_000;
            let mut subs = Subs::new(2, server_timeout);
            subs.push_request(1, opcua::types::DateTime::from(ts), timeout_hint);
            subs.expire_stale_publish_requests(&now); // must not panic
            let timeout_ms: i128 = if timeout_hint > 0 && (timeout_hint as i64) < server_timeout { timeout_hint as i128 } else { server_timeout as i128 };
            let d = diff_ns((0, ns, nn), ($day_off, ts_s, ts_n));
            let expired = subs.response_queue_len() == 1;
            assert!(subs.request_queue_len() + subs.response_queue_len() == 1, "the request is either kept or answered");
            if expired {
                assert!(d > timeout_ms * 1_000_000, "BadTimeout only after the timeout has elapsed since the request's timestamp");
            } else {
                assert!(d <= timeout_ms * 1_000_000, "a request whose timeout has elapsed is answered");
            }
            if $day_off <= 0 {
                kani::cover!(expired, "expired");
            }
            if $day_off >= 0 {
                kani::cover!(d < 0, "timestamp in the future");
            }
            core::mem::forget(subs);
        }
        }
    };
}
// NOT REGISTERED (prefix c26_x_): even the future-timestamp instances (no panic, request kept) are unreliable: 888 s once without a
// memory cap, out of memory / solver errors at 14 and 30 GB. Instances in which the request can expire build a
// ServiceFault / SupportedMessage and move it through two VecDeques, which exhausted 20 GB (measured, same-day instance
// with concrete timeouts). The "BadTimeout only after the timeout" half is therefore outside the claim.
expire_requests!(c26_x_expire_ts_tomorrow, 2024, 3, 11, 1i64, 0);
expire_requests!(c26_x_expire_ts_endtimes, 9999, 12, 31, 2_913_104i64, 0);
