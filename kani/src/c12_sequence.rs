//! C12 — sequence numbers increase by one per chunk and replays are rejected (receiver side).
//! Kernel: `Chunker::validate_chunks` (core/comms/chunker.rs) on k in {1,2} real `MessageChunk`s built with
//! `MessageChunk::new` from symbolic sequence numbers, request ids and channel ids, with a symbolic starting number.
use opcua::core::comms::chunker::Chunker;
use opcua::core::comms::message_chunk::{MessageChunk, MessageChunkType, MessageIsFinalType};
use opcua::core::comms::secure_channel::{Role, SecureChannel};
use opcua::crypto::SecurityPolicy;
use opcua::types::{DateTime, DecodingOptions, MessageSecurityMode};

pub fn channel(id: u32) -> SecureChannel {
    SecureChannel::verif_new(
        Role::Server,
        SecurityPolicy::None,
        MessageSecurityMode::None,
        id,
        1,
        DateTime::null(),
        DecodingOptions::minimal(),
    )
}

pub fn chunk(seq: u32, req: u32, channel_id: u32, last: bool) -> MessageChunk {
    let sender = channel(channel_id);
    let c = MessageChunk::new(
        seq,
        req,
        MessageChunkType::Message,
        if last { MessageIsFinalType::Final } else { MessageIsFinalType::Intermediate },
        &sender,
        &[0xAB, 0xCD],
    )
    .unwrap();
    core::mem::forget(sender);
    c
}

macro_rules! validate_k {
    ($name:ident, $k:expr, $unw:expr) => {
        #[cfg(kani)]
        #[kani::proof]
        #[kani::stub(::std::fmt::format, crate::stubs::fmt_format)]
        #[kani::stub(::std::string::String::from_utf8, crate::stubs::string_from_utf8)]
        #[kani::stub(::chrono::Utc::now, crate::stubs::utc_now)]
        #[kani::unwind($unw)]
        pub fn $name() {
            const K: usize = $k;
            let seq: [u32; K] = kani::any();
            let req: [u32; K] = kani::any();
            let cid: [u32; K] = kani::any();
            let receiver_id: u32 = kani::any();
            let start: u32 = kani::any();
            let mut chunks: Vec<MessageChunk> = Vec::with_capacity(K);
            let mut i = 0;
            while i < K {
                chunks.push(chunk(seq[i], req[i], cid[i], i == K - 1));
                i += 1;
            }
            let receiver = channel(receiver_id);
            let r = Chunker::validate_chunks(start, &receiver, &chunks); // must not panic for any values

            // the specification predicate
            let mut ok = seq[0] >= start;
            let mut i = 0;
            while i < K {
                ok = ok && (seq[i] as u64 == seq[0] as u64 + i as u64);
                ok = ok && req[i] == req[0];
                ok = ok && (receiver_id == 0 || cid[i] == receiver_id);
                i += 1;
            }
            assert!(r.is_ok() == ok, "accepted exactly when consecutive, not below the starting number, one request id, the channel's id");
            if let Ok(last) = r {
                assert!(last == seq[K - 1], "returns the last sequence number of the message");
                if last < u32::MAX {
                    // replay: presenting the same chunks again after they were accepted (callers pass last + 1)
                    let again = Chunker::validate_chunks(last + 1, &receiver, &chunks);
                    assert!(again.is_err(), "a replayed message is rejected");
                }
            }
            kani::cover!(r.is_ok(), "accepted");
            kani::cover!(r.is_err() && seq[0] >= start, "rejected for another reason than the starting number");
            core::mem::forget((chunks, receiver));
        }
    };
}
validate_k!(c12_q_validate_1_chunk, 1, 4);
validate_k!(c12_q_validate_2_chunks, 2, 4);
// k = 3 exhausted 14 GB (measured); the claim is for messages of up to 2 chunks.
