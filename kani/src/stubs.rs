//! Environment stubs (DESIGN.md 2.3). Every stub is part of the claim of the harness using it.

/// `regex::Regex::new` crashes the Kani compiler; every path through a regex is outside every claim.
#[cfg(kani)]
pub fn regex_new(_re: &str) -> Result<regex::Regex, regex::Error> {
    kani::assume(false);
    loop {}
}

/// Fixed hasher keys: `RandomState::new` reaches getrandom (unsupported, kills all later paths).
#[cfg(kani)]
pub fn random_state_new() -> std::collections::hash_map::RandomState {
    unsafe { std::mem::transmute([1u64, 2u64]) }
}

/// Formatting is not the subject of any harness: messages become empty strings.
#[cfg(kani)]
pub fn fmt_format(_args: core::fmt::Arguments<'_>) -> String {
    String::new()
}

/// Fixed wall clock (2020-09-13T12:26:40Z): `clock_gettime` is unsupported FFI. Harnesses that need a symbolic
/// clock pass `now` explicitly to the kernels instead of stubbing with a symbolic value (keeps native replay aligned).
#[cfg(kani)]
pub fn utc_now() -> chrono::DateTime<chrono::Utc> {
    chrono::DateTime::<chrono::Utc>::from_timestamp(1_600_000_000, 0).unwrap()
}

/// Plain byte-loop UTF-8 validity (RFC 3629 / Unicode Table 3-7), no word-at-a-time tricks.
pub fn utf8_valid(b: &[u8]) -> bool {
    let n = b.len();
    let mut i = 0;
    while i < n {
        let c = b[i];
        if c < 0x80 {
            i += 1;
        } else if c >= 0xC2 && c <= 0xDF {
            if i + 1 >= n || b[i + 1] & 0xC0 != 0x80 {
                return false;
            }
            i += 2;
        } else if c >= 0xE0 && c <= 0xEF {
            if i + 2 >= n {
                return false;
            }
            let (c1, c2) = (b[i + 1], b[i + 2]);
            let lo = if c == 0xE0 { 0xA0 } else { 0x80 };
            let hi = if c == 0xED { 0x9F } else { 0xBF };
            if c1 < lo || c1 > hi || c2 & 0xC0 != 0x80 {
                return false;
            }
            i += 3;
        } else if c >= 0xF0 && c <= 0xF4 {
            if i + 3 >= n {
                return false;
            }
            let (c1, c2, c3) = (b[i + 1], b[i + 2], b[i + 3]);
            let lo = if c == 0xF0 { 0x90 } else { 0x80 };
            let hi = if c == 0xF4 { 0x8F } else { 0xBF };
            if c1 < lo || c1 > hi || c2 & 0xC0 != 0x80 || c3 & 0xC0 != 0x80 {
                return false;
            }
            i += 4;
        } else {
            return false;
        }
    }
    true
}

#[allow(dead_code)]
struct FromUtf8ErrorTwin {
    bytes: Vec<u8>,
    valid_up_to: usize,
    error_len: Option<u8>,
}

/// Stand-in for `String::from_utf8`: std's validator chooses word-at-a-time paths from pointer alignment, which CBMC
/// cannot resolve (19 GB, no verdict). Same result for every input (lemma `lemma_utf8_valid` for lengths <= 4);
/// the error value is only ever mapped to a status code.
#[cfg(kani)]
pub fn string_from_utf8(vec: Vec<u8>) -> Result<String, std::string::FromUtf8Error> {
    if utf8_valid(&vec) {
        Ok(unsafe { String::from_utf8_unchecked(vec) })
    } else {
        let twin = FromUtf8ErrorTwin { bytes: vec, valid_up_to: 0, error_len: Some(1) };
        Err(unsafe { std::mem::transmute::<FromUtf8ErrorTwin, std::string::FromUtf8Error>(twin) })
    }
}

#[cfg(kani)]
#[kani::proof]
#[kani::unwind(6)]
pub fn lemma_utf8_valid() {
    let b: [u8; 4] = kani::any();
    let n: usize = kani::any();
    kani::assume(n <= 4);
    let s = &b[..n];
    assert!(utf8_valid(s) == core::str::from_utf8(s).is_ok(), "utf8_valid agrees with core::str::from_utf8");
    kani::cover!(n == 4 && utf8_valid(s) && b[0] >= 0xF0, "a 4-byte sequence");
}

/// Loop-free stand-in for `String::from_utf8` for harnesses whose string bytes are ASCII by construction (C09: the
/// policy URI of an OPN chunk): no validation loop, so the harness can keep `#[kani::unwind(2)]`.
#[cfg(kani)]
pub fn string_from_utf8_trusting(vec: Vec<u8>) -> Result<String, std::string::FromUtf8Error> {
    Ok(unsafe { String::from_utf8_unchecked(vec) })
}
