//! Environment stubs (DESIGN.md 2.3). Every stub is part of the claim of the harness using it.

/// `regex::Regex::new` crashes the Kani compiler; every path through a regex is outside every claim.
#[cfg(kani)]
pub fn regex_new(_re: &str) -> Result<regex::Regex, regex::Error> {
    kani::assume(false);
    loop {}
}

/// Fixed hasher keys: `RandomState::new` reaches getrandom (unsupported, kills all later paths).
#[cfg(kani)]
pub fn random_state_new() -> std::collections::hash_map::RandomState {
    unsafe { std::mem::transmute([1u64, 2u64]) }
}

/// Formatting is not the subject of any harness: messages become empty strings.
#[cfg(kani)]
pub fn fmt_format(_args: core::fmt::Arguments<'_>) -> String {
    String::new()
}

/// Fixed wall clock (2020-09-13T12:26:40Z): `clock_gettime` is unsupported FFI. Harnesses that need a symbolic
/// clock pass `now` explicitly to the kernels instead of stubbing with a symbolic value (keeps native replay aligned).
#[cfg(kani)]
pub fn utc_now() -> chrono::DateTime<chrono::Utc> {
    chrono::DateTime::<chrono::Utc>::from_timestamp(1_600_000_000, 0).unwrap()
}
