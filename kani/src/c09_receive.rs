//! C09 — the secure-channel receive path is total on arbitrary peer bytes.
//! Kernel: `SecureChannel::verify_and_remove_security` (core/comms/secure_channel.rs) with everything it reaches on the
//! Rust side: header decoding, range arithmetic, `symmetric_decrypt_and_verify`, `SecurityPolicy::symmetric_*`,
//! `hash::verify_hmac_*`, `AesKey::decrypt`/`validate_aes_args`, the OPN branch up to certificate parsing.
//! OpenSSL (FFI) is cut one level below the opcua wrappers: HMAC -> position-sensitive stand-in, memcmp -> byte loop,
//! AES cipher handle fabricated and `Crypter::new` failing (so the decrypt wrapper's own argument validation runs, the
//! cipher does not). Oracle: no panic (Kani's built-in checks). Natively the same bytes run against real OpenSSL.
use crate::c13_keys::{md_sha1, md_sha256};
use opcua::core::comms::secure_channel::{Role, SecureChannel};
use opcua::crypto::SecurityPolicy;
use opcua::types::{DateTime, DecodingOptions, MessageSecurityMode};

/// `openssl::memcmp::eq` (FFI): for a no-panic property the outcome is irrelevant, so it is ARBITRARY — the path after
/// a "successful" verification is explored as well as the failing one. Loop-free on purpose: dropping an `io::Error`
/// dispatches through `dyn Error` drop glue, which CBMC unwinds to the full bound for every candidate type, so these
/// harnesses must keep `#[kani::unwind]` tiny (measured: unwind 22 -> no verdict in 10 min; unwind 5 -> seconds).
#[cfg(kani)]
pub fn memcmp_eq_any(a: &[u8], b: &[u8]) -> bool {
    assert!(a.len() == b.len(), "openssl::memcmp::eq panics on slices of different length");
    kani::any()
}

/// HMAC stand-in without loops: a constant digest of the right length.
#[cfg(kani)]
pub fn const_hmac_vec(digest: openssl::hash::MessageDigest, _key: &[u8], _data: &[u8]) -> Vec<u8> {
    if digest.as_ptr() as usize == 1 {
        vec![0x5Au8; 20]
    } else {
        vec![0x5Au8; 32]
    }
}

/// Fabricated cipher handle (never dereferenced: every use is stubbed).
#[cfg(kani)]
pub fn fake_cipher() -> openssl::symm::Cipher {
    unsafe { core::mem::transmute::<usize, openssl::symm::Cipher>(16usize) }
}
#[cfg(kani)]
pub fn cipher_block_size(_c: &openssl::symm::Cipher) -> usize {
    16
}
#[cfg(kani)]
pub fn crypter_new_fails(
    _t: openssl::symm::Cipher,
    _mode: openssl::symm::Mode,
    _key: &[u8],
    _iv: Option<&[u8]>,
) -> Result<openssl::symm::Crypter, openssl::error::ErrorStack> {
    Err(unsafe { core::mem::transmute::<Vec<u8>, openssl::error::ErrorStack>(Vec::new()) })
}

pub fn established(role: Role, policy: SecurityPolicy, mode: MessageSecurityMode) -> SecureChannel {
    let mut c = SecureChannel::verif_new(role, policy, mode, 7, 1, DateTime::null(), DecodingOptions::minimal());
    let (sign_len, enc_len) = match policy {
        SecurityPolicy::Basic128Rsa15 => (16, 16),
        SecurityPolicy::Basic256 => (24, 32),
        SecurityPolicy::Aes128Sha256RsaOaep => (32, 16),
        _ => (32, 32),
    };
    let keys = || Some((vec![1u8; sign_len], vec![2u8; enc_len], vec![3u8; 16]));
    c.verif_set_keys(keys(), keys());
    c
}

macro_rules! crypto_cut {
    ($(#[$m:meta])* pub fn $name:ident() $body:block) => {
        #[cfg(kani)]
        #[kani::proof]
        #[kani::stub(::opcua::crypto::hash::hmac_vec, const_hmac_vec)]
        #[kani::stub(::openssl::hash::MessageDigest::sha1, md_sha1)]
        #[kani::stub(::openssl::hash::MessageDigest::sha256, md_sha256)]
        #[kani::stub(::openssl::memcmp::eq, memcmp_eq_any)]
        #[kani::stub(::openssl::symm::Cipher::aes_128_cbc, fake_cipher)]
        #[kani::stub(::openssl::symm::Cipher::aes_256_cbc, fake_cipher)]
        #[kani::stub(::openssl::symm::Cipher::block_size, cipher_block_size)]
        #[kani::stub(::openssl::symm::Crypter::new, crypter_new_fails)]
        #[kani::stub(::std::fmt::format, crate::stubs::fmt_format)]
        #[kani::stub(::std::string::String::from_utf8, crate::stubs::string_from_utf8_trusting)]
        #[kani::stub(::chrono::Utc::now, crate::stubs::utc_now)]
        $(#[$m])*
        pub fn $name() $body
    };
}

/// A MSG chunk of N bytes, all symbolic except the message type ("MSG") and the declared size (concrete SIZE, equal
/// to N or not), received on an established channel. Must return a chunk or an error.
macro_rules! msg_chunk {
    ($name:ident, $policy:expr, $mode:expr, $n:expr, $size:expr, $unw:expr) => {
        crypto_cut! {
        #[kani::unwind($unw)]
        pub fn $name() {
            let mut bytes: [u8; $n] = kani::any();
            bytes[0] = b'M';
            bytes[1] = b'S';
            bytes[2] = b'G';
            let sz: u32 = $size;
            bytes[4] = sz as u8;
            bytes[5] = (sz >> 8) as u8;
            bytes[6] = (sz >> 16) as u8;
            bytes[7] = (sz >> 24) as u8;
            let mut channel = established(Role::Server, $policy, $mode);
            let r = channel.verify_and_remove_security(&bytes); // must not panic
            if $size != $n {
                assert!(r.is_err(), "a chunk whose length differs from its declared size (bytes removed or appended) is rejected");
            }
            kani::cover!(r.is_err(), "rejected");
            core::mem::forget((r, channel));
        }
        }
    };
}

// Sign mode, SHA-1 policy (signature 20 bytes): chunks shorter than, equal to and longer than header + signature
msg_chunk!(c09_q_msg_sign_sha1_n16, SecurityPolicy::Basic128Rsa15, MessageSecurityMode::Sign, 16, 16, 2);
msg_chunk!(c09_t_msg_sign_sha1_n30, SecurityPolicy::Basic128Rsa15, MessageSecurityMode::Sign, 30, 30, 2);
msg_chunk!(c09_t_msg_sign_sha256_n24, SecurityPolicy::Basic256Sha256, MessageSecurityMode::Sign, 24, 24, 2);
// (c09_x_ = not registered: 60- and 48-byte SHA-256 instances ran out of memory at 30 GB)
msg_chunk!(c09_x_msg_sign_sha256_n60, SecurityPolicy::Basic256Sha256, MessageSecurityMode::Sign, 60, 60, 2);
// declared size smaller than the buffer (trailing bytes) and larger than it
msg_chunk!(c09_q_msg_sign_sha1_size_below_buffer, SecurityPolicy::Basic128Rsa15, MessageSecurityMode::Sign, 48, 44, 2);
msg_chunk!(c09_t_msg_sign_sha1_size_above_buffer, SecurityPolicy::Basic128Rsa15, MessageSecurityMode::Sign, 44, 48, 2);
// SignAndEncrypt: ciphertext of a length that is / is not a multiple of the block size, and empty
msg_chunk!(c09_t_msg_encrypt_sha1_n16_empty_ciphertext, SecurityPolicy::Basic128Rsa15, MessageSecurityMode::SignAndEncrypt, 16, 16, 2);
msg_chunk!(c09_q_msg_encrypt_sha1_n37_ragged_ciphertext, SecurityPolicy::Basic128Rsa15, MessageSecurityMode::SignAndEncrypt, 37, 37, 2);
msg_chunk!(c09_x_msg_encrypt_sha256_n48, SecurityPolicy::Basic256Sha256, MessageSecurityMode::SignAndEncrypt, 48, 48, 2);
// mode None: everything is passed through
msg_chunk!(c09_q_msg_none_n20, SecurityPolicy::None, MessageSecurityMode::None, 20, 20, 2);

const URI: &[u8; 57] = b"http://opcfoundation.org/UA/SecurityPolicy#Basic256Sha256";
const OPN1_LEN: usize = 12 + 4 + 57 + 4 + 4 + 8;

/// The concrete skeleton of an OPN chunk naming Basic256Sha256 (built at compile time: no run-time loop).
const fn opn_skeleton() -> [u8; OPN1_LEN] {
    let mut b = [0u8; OPN1_LEN];
    b[0] = b'O';
    b[1] = b'P';
    b[2] = b'N';
    b[3] = b'F';
    b[4] = OPN1_LEN as u8;
    b[12] = 57;
    let mut i = 0;
    while i < 57 {
        b[16 + i] = URI[i];
        i += 1;
    }
    b
}

/// An OPN chunk naming a real policy with a null sender certificate and a null thumbprint, on a
/// fresh server channel; channel id and the 8 trailing bytes symbolic.
crypto_cut! {
#[kani::unwind(2)]
pub fn c09_t_opn_null_certificate() {
    const SKELETON: [u8; OPN1_LEN] = opn_skeleton();
    let mut bytes: [u8; OPN1_LEN] = SKELETON;
    let (c0, c1, c2, c3): (u8, u8, u8, u8) = (kani::any(), kani::any(), kani::any(), kani::any());
    bytes[8] = c0;
    bytes[9] = c1;
    bytes[10] = c2;
    bytes[11] = c3;
    let v: u8 = 0xFF; // null certificate (an empty one reaches X509 parsing, which is FFI)
    bytes[73] = v;
    bytes[74] = v;
    bytes[75] = v;
    bytes[76] = v;
    bytes[77] = 0xFF;
    bytes[78] = 0xFF;
    bytes[79] = 0xFF;
    bytes[80] = 0xFF;
    let tail: [u8; 8] = kani::any();
    bytes[81] = tail[0];
    bytes[82] = tail[1];
    bytes[83] = tail[2];
    bytes[84] = tail[3];
    bytes[85] = tail[4];
    bytes[86] = tail[5];
    bytes[87] = tail[6];
    bytes[88] = tail[7];
    let mut channel = SecureChannel::verif_new(Role::Server, SecurityPolicy::None, MessageSecurityMode::None, 0, 0, DateTime::null(), DecodingOptions::minimal());
    let r = channel.verify_and_remove_security(&bytes); // must not panic
    assert!(r.is_err(), "an OPN without a sender certificate on a secured policy is a security error");
    kani::cover!(true, "end reached");
    core::mem::forget((r, channel));
}
}

/// Two steps on an established Sign channel: an OPN chunk with an unknown (3-character) policy URI is rejected; the MSG
/// chunk that follows must still be handled without a panic (a rejected OPN must not change the channel's policy).
crypto_cut! {
#[kani::unwind(2)]
pub fn c09_t_rejected_opn_then_msg() {
    let u: [u8; 3] = kani::any();
    kani::assume(u[0] < 0x80 && u[1] < 0x80 && u[2] < 0x80);
    let opn: [u8; 27] = [
        b'O', b'P', b'N', b'F', 27, 0, 0, 0, 7, 0, 0, 0, // header, channel id 7
        3, 0, 0, 0, u[0], u[1], u[2], // policy uri
        0xFF, 0xFF, 0xFF, 0xFF, 0xFF, 0xFF, 0xFF, 0xFF, // null certificate, null thumbprint
    ];
    let mut channel = established(Role::Server, SecurityPolicy::Basic128Rsa15, MessageSecurityMode::Sign);
    let r1 = channel.verify_and_remove_security(&opn);
    assert!(r1.is_err(), "an unknown policy is rejected");
    let mut msg: [u8; 40] = kani::any();
    msg[0] = b'M';
    msg[1] = b'S';
    msg[2] = b'G';
    msg[4] = 40;
    msg[5] = 0;
    msg[6] = 0;
    msg[7] = 0;
    let r2 = channel.verify_and_remove_security(&msg); // must not panic
    kani::cover!(r2.is_err(), "second chunk rejected");
    core::mem::forget((r1, r2, channel));
}
}
