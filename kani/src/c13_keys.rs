//! C13 — channel keys are derived per the specification and agree on both ends (structure; PRF strength outside).
//! Kernels: `hash::p_sha`, `SecurityPolicy::prf`, `SecurityPolicy::make_secure_channel_keys`,
//! `SecureChannel::derive_keys`, `set_local_nonce` / `set_remote_nonce`.
//! OpenSSL's HMAC (FFI) is replaced by a cheap, position-sensitive, key/data-asymmetric stand-in (`toy_hmac`); the
//! harness computes RFC 5246 P_hash and the Part 6 Table 33 slicing independently with the same stand-in and compares.
//! What is decided is therefore WHICH bytes are hashed in WHICH order and WHERE the keys are cut — not HMAC itself.
use opcua::core::comms::secure_channel::{Role, SecureChannel};
use opcua::crypto::SecurityPolicy;
use opcua::types::{DateTime, DecodingOptions, MessageSecurityMode};

/// Stand-in digests: pointer value 1 = SHA-1 (20 bytes), 2 = SHA-256 (32 bytes).
#[cfg(kani)]
pub fn md_sha1() -> openssl::hash::MessageDigest {
    unsafe { openssl::hash::MessageDigest::from_ptr(1 as *const _) }
}
#[cfg(kani)]
pub fn md_sha256() -> openssl::hash::MessageDigest {
    unsafe { openssl::hash::MessageDigest::from_ptr(2 as *const _) }
}

/// Linear (mod 256) stand-in: every output byte is constant + sum(odd coefficient x input byte), with different
/// coefficients for key and data positions. Cheap for SAT (8-bit adders only), position-sensitive, key/data-asymmetric.
pub fn toy_digest(len: usize, key: &[u8], data: &[u8]) -> Vec<u8> {
    let mut acc: u8 = (key.len() as u8).wrapping_mul(31).wrapping_add((data.len() as u8).wrapping_mul(17));
    let mut k = 0;
    while k < key.len() {
        acc = acc.wrapping_add(key[k].wrapping_mul(((k as u8) << 1) | 1));
        k += 1;
    }
    let mut d = 0;
    while d < data.len() {
        acc = acc.wrapping_add(data[d].wrapping_mul(((d as u8) << 2) | 3));
        d += 1;
    }
    let mut out = Vec::with_capacity(len);
    let mut i = 0;
    while i < len {
        out.push(acc.wrapping_add((i as u8).wrapping_mul(13)));
        i += 1;
    }
    out
}

#[cfg(kani)]
pub fn toy_hmac_vec(digest: openssl::hash::MessageDigest, key: &[u8], data: &[u8]) -> Vec<u8> {
    let len = if digest.as_ptr() as usize == 1 { 20 } else { 32 };
    toy_digest(len, key, data)
}

/// The digest used by the REFERENCE: under the model checker the same stand-in the implementation is given; in a
/// native replay the real OpenSSL HMAC (the implementation then runs un-stubbed too), so that a counterexample is
/// confirmed against real crypto.
#[cfg(not(verif_playback))]
pub fn ref_digest(len: usize, key: &[u8], data: &[u8]) -> Vec<u8> {
    toy_digest(len, key, data)
}
#[cfg(verif_playback)]
pub fn ref_digest(len: usize, key: &[u8], data: &[u8]) -> Vec<u8> {
    let md = if len == 20 { openssl::hash::MessageDigest::sha1() } else { openssl::hash::MessageDigest::sha256() };
    let pkey = openssl::pkey::PKey::hmac(key).unwrap();
    let mut signer = openssl::sign::Signer::new(md, &pkey).unwrap();
    signer.update(data).unwrap();
    signer.sign_to_vec().unwrap()
}

/// RFC 5246 P_hash written independently: A(0) = seed, A(i) = H(secret, A(i-1)), out = H(secret, A(1)+seed) + H(secret, A(2)+seed) ...
pub fn reference_p_hash(dlen: usize, secret: &[u8], seed: &[u8], length: usize) -> Vec<u8> {
    let mut out: Vec<u8> = Vec::with_capacity(length + dlen);
    let mut a = ref_digest(dlen, secret, seed);
    while out.len() < length {
        let mut msg: Vec<u8> = Vec::with_capacity(dlen + seed.len());
        msg.extend_from_slice(&a);
        msg.extend_from_slice(seed);
        let block = ref_digest(dlen, secret, &msg);
        out.extend_from_slice(&block);
        a = ref_digest(dlen, secret, &a);
    }
    out.truncate(length);
    out
}

/// Part 7 key lengths, transcribed: (digest length, signing key, encrypting key, block size).
pub fn policy_lengths(p: SecurityPolicy) -> (usize, usize, usize, usize) {
    match p {
        SecurityPolicy::Basic128Rsa15 => (20, 16, 16, 16),
        SecurityPolicy::Basic256 => (20, 24, 32, 16),
        SecurityPolicy::Basic256Sha256 => (32, 32, 32, 16),
        SecurityPolicy::Aes128Sha256RsaOaep => (32, 32, 16, 16),
        SecurityPolicy::Aes256Sha256RsaPss => (32, 32, 32, 16),
        _ => (0, 0, 0, 0),
    }
}

fn eq_bytes(a: &[u8], b: &[u8]) -> bool {
    if a.len() != b.len() {
        return false;
    }
    let mut i = 0;
    while i < a.len() {
        if a[i] != b[i] {
            return false;
        }
        i += 1;
    }
    true
}

macro_rules! key_derivation {
    ($name:ident, $policy:expr) => {
        #[cfg(kani)]
        #[kani::proof]
        #[kani::stub(::opcua::crypto::hash::hmac_vec, toy_hmac_vec)]
        #[kani::stub(::openssl::hash::MessageDigest::sha1, md_sha1)]
        #[kani::stub(::openssl::hash::MessageDigest::sha256, md_sha256)]
        #[kani::stub(::std::fmt::format, crate::stubs::fmt_format)]
        #[kani::unwind(90)]
        pub fn $name() {
            let policy = $policy;
            // one symbolic byte per nonce, the rest concrete: the structure under test does not depend on the values, and the
            // nested P_hash expressions over 3 fully symbolic bytes cost 300-600 s of solver time (measured)
            let secret: [u8; 3] = [kani::any(), 0x5A, 0xC3];
            let seed: [u8; 2] = [0x17, kani::any()];
            let (dlen, s, e, b) = policy_lengths(policy);
            let (signing, enc, iv) = policy.make_secure_channel_keys(&secret, &seed);
            let stream = reference_p_hash(dlen, &secret, &seed, s + e + b);
            assert!(eq_bytes(&signing, &stream[0..s]), "signing key = P_hash[0, s)");
            assert!(eq_bytes(enc.value(), &stream[s..s + e]), "encrypting key = P_hash[s, s+e)");
            assert!(eq_bytes(&iv, &stream[s + e..s + e + b]), "iv = P_hash[s+e, s+e+b)");
            kani::cover!(true, "end reached");
            core::mem::forget((signing, enc, iv, stream));
        }
    };
}
key_derivation!(c13_q_keys_basic128rsa15, SecurityPolicy::Basic128Rsa15);
key_derivation!(c13_q_keys_basic256, SecurityPolicy::Basic256);
key_derivation!(c13_q_keys_basic256sha256, SecurityPolicy::Basic256Sha256);
key_derivation!(c13_t_keys_aes128sha256rsaoaep, SecurityPolicy::Aes128Sha256RsaOaep);
key_derivation!(c13_t_keys_aes256sha256rsapss, SecurityPolicy::Aes256Sha256RsaPss);

fn chan(role: Role, policy: SecurityPolicy) -> SecureChannel {
    SecureChannel::verif_new(role, policy, MessageSecurityMode::SignAndEncrypt, 1, 1, DateTime::null(), DecodingOptions::minimal())
}

/// Tagging stand-in for `make_secure_channel_keys`: the "keys" are the (secret, seed) they were derived from, so that
/// the wiring of `derive_keys` (which nonce is the secret, which the seed, for which direction) can be read off.
#[cfg(kani)]
pub fn tag_keys(policy: &SecurityPolicy, secret: &[u8], seed: &[u8]) -> (Vec<u8>, opcua::crypto::aeskey::AesKey, Vec<u8>) {
    (secret.to_vec(), opcua::crypto::aeskey::AesKey::new(*policy, seed), seed.to_vec())
}

/// Both ends derive from the exchanged nonces — including after a renewal (nonces set a second time on the same
/// channel): each side derives from the CURRENT nonces, its sending keys use secret = remote nonce, seed = local nonce
/// (Part 6 Table 33), and so the keys one side secures with are exactly the keys the other side verifies with.
/// (`make_secure_channel_keys` itself is decided by the c13_*_keys_* harnesses; here it is the tagging stand-in.)
#[cfg(kani)]
#[kani::proof]
#[kani::stub(::opcua::crypto::SecurityPolicy::make_secure_channel_keys, tag_keys)]
#[kani::stub(::std::fmt::format, crate::stubs::fmt_format)]
#[kani::unwind(6)]
pub fn c13_q_agreement_after_renewal() {
    let policy = SecurityPolicy::Basic256Sha256;
    let mut client = chan(Role::Client, policy);
    let mut server = chan(Role::Server, policy);
    let cn0: [u8; 3] = kani::any();
    let sn0: [u8; 3] = kani::any();
    client.set_local_nonce(&cn0);
    client.set_remote_nonce(&sn0);
    server.set_local_nonce(&sn0);
    server.set_remote_nonce(&cn0);
    client.derive_keys();
    server.derive_keys();
    // renewal
    let cn: [u8; 2] = kani::any();
    let sn: [u8; 3] = kani::any();
    client.set_local_nonce(&cn);
    client.set_remote_nonce(&sn);
    server.set_local_nonce(&sn);
    server.set_remote_nonce(&cn);
    client.derive_keys();
    server.derive_keys();
    let (cl, cr) = (client.verif_local_keys().unwrap(), client.verif_remote_keys().unwrap());
    let (sl, sr) = (server.verif_local_keys().unwrap(), server.verif_remote_keys().unwrap());
    // (the tag reading only makes sense under the tagging stand-in; a native replay runs the real key derivation and
    // checks the agreement assertions below)
    if cfg!(not(verif_playback)) {
        assert!(eq_bytes(cl.0, &sn) && eq_bytes(cl.2, &cn), "client keys: secret = server nonce, seed = client nonce (current nonces)");
        assert!(eq_bytes(sl.0, &cn) && eq_bytes(sl.2, &sn), "server keys: secret = client nonce, seed = server nonce (current nonces)");
    }
    assert!(eq_bytes(cl.0, sr.0) && eq_bytes(cl.1, sr.1) && eq_bytes(cl.2, sr.2), "client's sending keys are the server's receiving keys");
    assert!(eq_bytes(sl.0, cr.0) && eq_bytes(sl.1, cr.1) && eq_bytes(sl.2, cr.2), "server's sending keys are the client's receiving keys");
    kani::cover!(true, "end reached");
    core::mem::forget((client, server));
}
