//! C02 — decoding arbitrary bytes never panics, never recurses beyond the configured depth.
//! Oracle: Kani's built-in panic / overflow / index / unwinding assertions, plus explicit nesting-depth assertions
//! (so that a violation replays natively, where there is no unwinding assertion).
//! Streams: `SrcLong<N>` (all N bytes symbolic, short reads cut) and `SrcTrunc<N>` (stream ends at N).
//! Dispatch bytes of `Variant::decode` are concrete per instance (DESIGN 3.2).
use crate::c03_limits::opts;
use crate::streams::{SrcLong, SrcTrunc};
use opcua::core::comms::security_header::{AsymmetricSecurityHeader, SequenceHeader, SymmetricSecurityHeader};
use opcua::core::comms::tcp_types::{AcknowledgeMessage, ErrorMessage, HelloMessage};
use opcua::types::{
    BinaryEncoder, ByteString, DataValue, DecodingOptions, DepthGauge, DiagnosticInfo, ExpandedNodeId, ExtensionObject,
    Guid, LocalizedText, NodeId, QualifiedName, StatusCode, UAString, Variant,
};
use std::sync::Arc;

/// Small limits and decoding depth `d`.
pub fn small_opts(d: u64) -> DecodingOptions {
    DecodingOptions {
        max_string_length: 2,
        max_byte_string_length: 2,
        max_array_length: 2,
        decoding_depth_gauge: Arc::new(DepthGauge::new(d)),
        ..DecodingOptions::minimal()
    }
}

macro_rules! decode_total {
    ($name:ident, $ty:ty, $n:expr, $unw:expr) => {
        decode_total!($name, $ty, $n, $unw, true);
    };
    ($name:ident, $ty:ty, $n:expr, $unw:expr, $can_reject:expr) => {
        #[cfg(kani)]
        #[kani::proof]
        #[kani::stub(::std::fmt::format, crate::stubs::fmt_format)]
        #[kani::stub(::std::string::String::from_utf8, crate::stubs::string_from_utf8)]
        #[kani::stub(::regex::Regex::new, crate::stubs::regex_new)]
        #[kani::unwind($unw)]
        pub fn $name() {
            let bytes: [u8; $n] = kani::any();
            let mut s = SrcLong::new(bytes);
            let r = <$ty>::decode(&mut s, &small_opts(2)); // must not panic
            assert!(s.pos <= $n);
            kani::cover!(r.is_ok(), "some input decodes");
            if $can_reject {
                kani::cover!(r.is_err(), "some input is rejected");
            }
            core::mem::forget(r);
        }
    };
}

decode_total!(c02_q_total_uastring, UAString, 8, 10);
decode_total!(c02_q_total_bytestring, ByteString, 8, 10);
decode_total!(c02_q_total_guid, Guid, 16, 18, false);
decode_total!(c02_t_total_nodeid, NodeId, 19, 20);
decode_total!(c02_q_total_qualified_name, QualifiedName, 10, 10);
decode_total!(c02_t_total_localized_text, LocalizedText, 14, 10);
decode_total!(c02_t_total_asymmetric_header, AsymmetricSecurityHeader, 20, 10);
decode_total!(c02_q_total_symmetric_header, SymmetricSecurityHeader, 4, 6, false);
decode_total!(c02_q_total_sequence_header, SequenceHeader, 8, 6, false);
decode_total!(c02_q_total_hello, HelloMessage, 36, 10);
decode_total!(c02_q_total_acknowledge, AcknowledgeMessage, 28, 10, false);
decode_total!(c02_q_total_error_message, ErrorMessage, 20, 10);

fn diag_chain_len(d: &DiagnosticInfo) -> usize {
    let mut n = 1;
    let mut cur = d;
    while let Some(ref inner) = cur.inner_diagnostic_info {
        n += 1;
        cur = inner;
    }
    n
}

/// DiagnosticInfo: all bytes symbolic (every mask at every level). No panic, and a decoded value never nests deeper
/// than the configured decoding depth.
#[cfg(kani)]
#[kani::proof]
#[kani::stub(::std::fmt::format, crate::stubs::fmt_format)]
#[kani::stub(::std::string::String::from_utf8, crate::stubs::string_from_utf8)]
#[kani::unwind(4)]
pub fn c02_q_diagnostic_info_depth() {
    // no additional-info strings (bit 0x10 clear in every byte; the payload values do not matter): with the string
    // field present at every level the query exhausted 14 GB
    let m = |b: u8| b & 0xEF;
    let bytes: [u8; 10] = [
        m(kani::any()), m(kani::any()), m(kani::any()), m(kani::any()), m(kani::any()),
        m(kani::any()), m(kani::any()), m(kani::any()), m(kani::any()), m(kani::any()),
    ];
    let d: u64 = kani::any();
    kani::assume(d >= 1 && d <= 2);
    let mut s = SrcLong::new(bytes);
    let r = DiagnosticInfo::decode(&mut s, &small_opts(d));
    if let Ok(ref di) = r {
        assert!(diag_chain_len(di) as u64 <= d, "DiagnosticInfo nested deeper than the configured decoding depth is rejected");
    }
    kani::cover!(r.is_ok(), "some input decodes");
    kani::cover!(r.is_err(), "some input is rejected");
    core::mem::forget(r);
}

fn datavalue_nesting(dv: &DataValue) -> usize {
    let mut n = 1;
    let mut cur = dv;
    loop {
        match cur.value {
            Some(Variant::DataValue(ref inner)) => {
                n += 1;
                cur = inner;
            }
            _ => return n,
        }
    }
}

/// DataValue nested in Variant nested in DataValue ...: the DataValue masks and all trailing fields are symbolic, the
/// Variant masks in between are the concrete byte 0x17 (Variant of DataValue). Timestamps excluded (calendar arithmetic).
#[cfg(kani)]
#[kani::proof]
#[kani::stub(::std::fmt::format, crate::stubs::fmt_format)]
#[kani::stub(::std::string::String::from_utf8, crate::stubs::string_from_utf8)]
#[kani::stub(::regex::Regex::new, crate::stubs::regex_new)]
#[kani::unwind(7)]
pub fn c02_q_datavalue_depth() {
    let mut bytes: [u8; 32] = kani::any();
    bytes[1] = 0x17;
    bytes[3] = 0x17;
    bytes[5] = 0x17;
    bytes[7] = 0x00; // innermost: empty variant
    kani::assume(bytes[0] & 0x0C == 0 && bytes[2] & 0x0C == 0 && bytes[4] & 0x0C == 0 && bytes[6] & 0x0C == 0);
    let d: u64 = kani::any();
    kani::assume(d >= 1 && d <= 2);
    let mut s = SrcLong::new(bytes);
    let r = DataValue::decode(&mut s, &small_opts(d));
    if let Ok(ref dv) = r {
        assert!(datavalue_nesting(dv) as u64 <= d, "DataValue nested deeper than the configured decoding depth is rejected");
    }
    kani::cover!(r.is_ok(), "some input decodes");
    kani::cover!(r.is_err(), "some input is rejected");
    core::mem::forget(r);
}

fn variant_nesting(v: &Variant) -> usize {
    let mut n = 0;
    let mut cur = v;
    loop {
        match cur {
            Variant::Variant(inner) => {
                n += 1;
                cur = inner;
            }
            Variant::Array(a) => {
                if a.values.len() == 1 {
                    cur = &a.values[0];
                } else {
                    return n;
                }
            }
            _ => return n,
        }
    }
}

/// Variant nested in Variant, directly (mask 0x18) and through one-element arrays of Variant (mask 0x98, length 1):
/// structure bytes concrete, leaf and depth limit symbolic.
macro_rules! variant_nest {
    ($name:ident, $bytes:expr, $n:expr) => {
        #[cfg(kani)]
        #[kani::proof]
        #[kani::stub(::std::fmt::format, crate::stubs::fmt_format)]
        #[kani::stub(::std::string::String::from_utf8, crate::stubs::string_from_utf8)]
        #[kani::stub(::regex::Regex::new, crate::stubs::regex_new)]
        #[kani::unwind(6)]
        pub fn $name() {
            let mut bytes: [u8; $n] = $bytes;
            bytes[$n - 1] = kani::any(); // leaf payload (a Boolean)
            let d: u64 = kani::any();
            kani::assume(d >= 1 && d <= 2);
            let mut s = SrcLong::new(bytes);
            let r = Variant::decode(&mut s, &small_opts(d));
            if let Ok(ref v) = r {
                assert!(variant_nesting(v) as u64 <= d, "Variant nested deeper than the configured decoding depth is rejected");
            }
            assert!(r.is_err(), "three levels of nesting exceed every depth limit <= 2");
            kani::cover!(true, "end reached");
            core::mem::forget(r);
        }
    };
}
variant_nest!(c02_q_variant_in_variant_depth, [0x18, 0x18, 0x18, 0x01, 0], 5);

/// Two levels of one-element Variant arrays (0x98, length 1) around a Boolean, depth limit 1: must be rejected.
#[cfg(kani)]
#[kani::proof]
#[kani::stub(::std::fmt::format, crate::stubs::fmt_format)]
#[kani::stub(::std::string::String::from_utf8, crate::stubs::string_from_utf8)]
#[kani::stub(::regex::Regex::new, crate::stubs::regex_new)]
#[kani::unwind(6)]
pub fn c02_q_variant_array_nesting_d1() {
    let mut bytes: [u8; 12] = [0x98, 1, 0, 0, 0, 0x98, 1, 0, 0, 0, 0x01, 0];
    bytes[11] = kani::any();
    let mut s = SrcLong::new(bytes);
    let r = Variant::decode(&mut s, &small_opts(1));
    if let Ok(ref v) = r {
        assert!(variant_nesting(v) <= 1, "Variant nested through arrays deeper than the configured decoding depth is rejected");
    }
    assert!(r.is_err(), "two levels of nesting exceed a depth limit of 1");
    kani::cover!(true, "end reached");
    core::mem::forget(r);
}
// not registered (out of memory; the two-level instance c02_q_variant_array_nesting_d1 covers the mechanism):
// variant_nest!(c02_x_variant_array_nesting_depth, [0x98, 1, 0, 0, 0, 0x98, 1, 0, 0, 0, 0x98, 1, 0, 0, 0, 0x01, 0], 17);

/// Variant scalars: mask byte concrete per instance, payload symbolic.
macro_rules! variant_scalar {
    ($name:ident, $mask:expr, $n:expr, $unw:expr) => {
        #[cfg(kani)]
        #[kani::proof]
        #[kani::stub(::std::fmt::format, crate::stubs::fmt_format)]
        #[kani::stub(::std::string::String::from_utf8, crate::stubs::string_from_utf8)]
        #[kani::stub(::regex::Regex::new, crate::stubs::regex_new)]
        #[kani::unwind($unw)]
        pub fn $name() {
            let mut bytes: [u8; $n] = kani::any();
            bytes[0] = $mask;
            let mut s = SrcLong::new(bytes);
            let r = Variant::decode(&mut s, &small_opts(2));
            kani::cover!(r.is_ok(), "some input decodes");
            core::mem::forget(r);
        }
    };
}
variant_scalar!(c02_q_variant_boolean, 0x01, 2, 6);
variant_scalar!(c02_q_variant_int32, 0x06, 5, 6);
variant_scalar!(c02_q_variant_double, 0x0B, 9, 10);
variant_scalar!(c02_q_variant_string, 0x0C, 8, 10);
variant_scalar!(c02_t_variant_guid, 0x0E, 17, 18);
variant_scalar!(c02_t_variant_bytestring, 0x0F, 8, 10);
variant_scalar!(c02_t_variant_nodeid, 0x11, 20, 20);
variant_scalar!(c02_t_variant_statuscode, 0x13, 5, 6);
variant_scalar!(c02_t_variant_qualified_name, 0x14, 10, 10);
variant_scalar!(c02_t_variant_localized_text, 0x15, 14, 10);
// not registered (solver errors): variant_scalar!(c02_x_variant_extension_object, 0x16, 27, 20);
variant_scalar!(c02_t_variant_diagnostic_info, 0x19, 12, 8);

/// Invalid type ids (26..=63), with and without the array bits: rejected, never a panic (mask concrete per instance).
macro_rules! variant_invalid {
    ($name:ident, $mask:expr) => {
        #[cfg(kani)]
        #[kani::proof]
        #[kani::stub(::std::fmt::format, crate::stubs::fmt_format)]
        #[kani::stub(::std::string::String::from_utf8, crate::stubs::string_from_utf8)]
        #[kani::stub(::regex::Regex::new, crate::stubs::regex_new)]
        #[kani::unwind(6)]
        pub fn $name() {
            let mut bytes: [u8; 10] = kani::any();
            bytes[0] = $mask;
            kani::assume(bytes[2] == 0 && bytes[3] == 0 && bytes[4] == 0 && bytes[1] <= 2); // array length 0..=2 when an array
            let mut s = SrcLong::new(bytes);
            let r = Variant::decode(&mut s, &small_opts(2));
            // (an unknown scalar type id decodes as Variant::Empty; only totality is asserted)
            kani::cover!(true, "end reached");
            core::mem::forget(r);
        }
    };
}
variant_invalid!(c02_q_variant_invalid_id_26, 0x1A);
// not registered (out of memory at 14 GB): variant_invalid!(c02_x_variant_invalid_id_40_array, 0xA8);

/// Variant array of Int32 with dimensions (mask 0xC6): array length, values, dimension count and dimensions symbolic:
/// the dimension product must neither overflow nor be accepted when it differs from the array length.
#[cfg(kani)]
#[kani::proof]
#[kani::stub(::std::fmt::format, crate::stubs::fmt_format)]
#[kani::stub(::std::string::String::from_utf8, crate::stubs::string_from_utf8)]
#[kani::stub(::regex::Regex::new, crate::stubs::regex_new)]
#[kani::unwind(5)]
pub fn c02_q_variant_dimensions_arithmetic() {
    let mut bytes: [u8; 21] = kani::any(); // mask, len=1, 1 x Int32, dims len, up to 2 dims
    bytes[0] = 0xC6;
    bytes[1] = 1;
    bytes[2] = 0;
    bytes[3] = 0;
    bytes[4] = 0;
    let d0 = u32::from_le_bytes([bytes[13], bytes[14], bytes[15], bytes[16]]);
    let d1 = u32::from_le_bytes([bytes[17], bytes[18], bytes[19], bytes[20]]);
    let dims_len = i32::from_le_bytes([bytes[9], bytes[10], bytes[11], bytes[12]]);
    let mut s = SrcLong::new(bytes);
    let r = Variant::decode(&mut s, &small_opts(2));
    if r.is_ok() {
        assert!(dims_len >= 0 && dims_len <= 2);
        let prod = if dims_len == 0 { 1 } else if dims_len == 1 { d0 as u64 } else { d0 as u64 * d1 as u64 };
        assert!(prod == 1, "accepted dimensions multiply to the array length");
    }
    kani::cover!(r.is_ok(), "accepted");
    kani::cover!(r.is_err() && d0 == 65536 && d1 == 65536, "overflowing product rejected");
    core::mem::forget(r);
}

/// Truncated input: the stream ends after N bytes (fixed-size payloads, so the EOF error is built on a concrete path).
macro_rules! truncated {
    ($name:ident, $ty:ty, $lead:expr, $n:expr, $unw:expr) => {
        #[cfg(kani)]
        #[kani::proof]
        #[kani::stub(::std::fmt::format, crate::stubs::fmt_format)]
        #[kani::stub(::std::string::String::from_utf8, crate::stubs::string_from_utf8)]
        #[kani::stub(::regex::Regex::new, crate::stubs::regex_new)]
        #[kani::unwind($unw)]
        pub fn $name() {
            let mut bytes: [u8; $n] = kani::any();
            if $n > 0 {
                bytes[0] = $lead;
            }
            let mut s = SrcTrunc::new(bytes);
            let r = <$ty>::decode(&mut s, &small_opts(2));
            assert!(r.is_err(), "a truncated value is an error, not a panic");
            kani::cover!(true, "end reached");
            core::mem::forget(r);
        }
    };
}
truncated!(c02_q_trunc_variant_empty_stream, Variant, 0, 0, 4);
truncated!(c02_q_trunc_variant_int64, Variant, 0x08, 5, 10);
truncated!(c02_q_trunc_variant_guid, Variant, 0x0E, 12, 18);
truncated!(c02_t_trunc_nodeid_guid, NodeId, 0x04, 10, 18);
truncated!(c02_t_trunc_nodeid_numeric, NodeId, 0x02, 4, 8);
truncated!(c02_t_trunc_variant_array_int32, Variant, 0x86, 3, 8);
