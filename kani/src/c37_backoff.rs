//! C37 — reconnect back-off follows its policy and never overflows.
//! Kernel: `ExponentialBackoff::next` (lib/src/client/retry.rs), reached through the hook
//! `opcua::client::verif_hooks::retry::Backoff` (constructor + field readers only).
use opcua::client::verif_hooks::retry::Backoff;
use std::time::Duration;

#[cfg(kani)]
pub fn any_duration() -> Duration {
    let s: u64 = kani::any();
    let n: u32 = kani::any();
    kani::assume(n < 1_000_000_000);
    Duration::new(s, n)
}

/// (seconds, nanoseconds) in exact arithmetic; no 128-bit multiplication (SAT-hostile).
fn nanos(d: Duration) -> (u128, u32) {
    (d.as_secs() as u128, d.subsec_nanos())
}

/// Reference: the delay after `cur` under cap `max`, in exact arithmetic: min(max, 2*cur).
fn spec_next_sleep(cur: Duration, max: Duration) -> (u128, u32) {
    let (s, n) = nanos(cur);
    let n2 = n as u64 + n as u64;
    let (carry, n2) = if n2 >= 1_000_000_000 { (1u128, (n2 - 1_000_000_000) as u32) } else { (0u128, n2 as u32) };
    let dbl = (s + s + carry, n2);
    let m = nanos(max);
    if dbl.0 < m.0 || (dbl.0 == m.0 && dbl.1 < m.1) {
        dbl
    } else {
        m
    }
}

/// One step from an ARBITRARY state (inductive: covers sequences of any length).
#[cfg(kani)]
#[kani::proof]
pub fn c37_q_step_any_state() {
    let max = any_duration();
    let cur = any_duration();
    let limit: Option<u32> = kani::any();
    let count: u32 = kani::any();
    // "fewer than 2^32 - 1 retries so far" is NOT assumed: an unlimited policy reaches any count.
    let mut b = Backoff::from_state(max, limit, cur, count);
    let r = b.next(); // must not panic
    match limit {
        Some(l) if l <= count => {
            assert!(r.is_none(), "limit reached: no further delay");
            assert!(b.retry_count() == count);
        }
        _ => {
            assert!(r == Some(cur), "yields the current delay");
            assert!(nanos(b.current_sleep()) == spec_next_sleep(cur, max), "next delay is min(max, 2*current)");
            // the counter must keep counting (a wrap would restart a limited policy's budget)
            assert!(b.retry_count() as u64 == count as u64 + 1 || limit.is_none(), "retry count advanced by one");
        }
    }
    kani::cover!(r.is_some(), "c37_step: some");
    kani::cover!(r.is_none(), "c37_step: none");
}

/// From `new()`: first delay equals the initial delay, exactly `limit` delays for limit ≤ 3.
#[cfg(kani)]
#[kani::proof]
#[kani::unwind(6)]
pub fn c37_q_from_new_first_and_count() {
    let max = any_duration();
    let init = any_duration();
    let limit: u32 = kani::any();
    kani::assume(limit <= 3);
    let mut b = Backoff::from_policy(max, Some(limit), init);
    let mut produced: u32 = 0;
    let mut prev: Option<Duration> = None;
    let mut i = 0;
    while i < 5 {
        match b.next() {
            Some(d) => {
                assert!(produced < limit, "never more than the limit");
                if produced == 0 {
                    assert!(d == init, "first delay equals the initial delay");
                } else {
                    let p = prev.unwrap();
                    assert!(nanos(d) == spec_next_sleep(p, max), "later delay is min(max, 2*previous)");
                }
                prev = Some(d);
                produced += 1;
            }
            None => {
                assert!(produced == limit, "exactly the limit of delays");
            }
        }
        i += 1;
    }
    assert!(produced == limit);
    kani::cover!(produced == 3, "c37_from_new: three delays");
}

/// Unlimited policy never ends (one inductive step: from any state with limit None, next is Some).
#[cfg(kani)]
#[kani::proof]
pub fn c37_q_unlimited_never_ends() {
    let max = any_duration();
    let cur = any_duration();
    let count: u32 = kani::any();
    let mut b = Backoff::from_state(max, None, cur, count);
    let r = b.next();
    assert!(r == Some(cur));
    kani::cover!(count == u32::MAX, "c37_unlimited: counter at max");
}
