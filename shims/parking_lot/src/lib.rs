//! Sequential stand-in for parking_lot used only in verification builds: same types via lock_api,
//! raw locks are plain flags without parking (no threads exist under the model checker).
use core::sync::atomic::{AtomicBool, AtomicUsize, Ordering};
use std::time::{Duration, Instant};

pub use lock_api;

pub struct RawMutex(AtomicBool);
unsafe impl lock_api::RawMutex for RawMutex {
    const INIT: RawMutex = RawMutex(AtomicBool::new(false));
    type GuardMarker = lock_api::GuardSend;
    fn lock(&self) {
        let was = self.0.swap(true, Ordering::Acquire);
        assert!(!was, "sequential shim: mutex already locked (self-deadlock)");
    }
    fn try_lock(&self) -> bool {
        !self.0.swap(true, Ordering::Acquire)
    }
    unsafe fn unlock(&self) {
        self.0.store(false, Ordering::Release);
    }
}

const WRITER: usize = usize::MAX;
pub struct RawRwLock(AtomicUsize);
unsafe impl lock_api::RawRwLock for RawRwLock {
    const INIT: RawRwLock = RawRwLock(AtomicUsize::new(0));
    type GuardMarker = lock_api::GuardSend;
    fn lock_shared(&self) {
        let v = self.0.load(Ordering::Acquire);
        assert!(v != WRITER, "sequential shim: read lock while write locked (self-deadlock)");
        self.0.store(v + 1, Ordering::Release);
    }
    fn try_lock_shared(&self) -> bool {
        let v = self.0.load(Ordering::Acquire);
        if v == WRITER { false } else { self.0.store(v + 1, Ordering::Release); true }
    }
    unsafe fn unlock_shared(&self) {
        let v = self.0.load(Ordering::Acquire);
        self.0.store(v - 1, Ordering::Release);
    }
    fn lock_exclusive(&self) {
        let v = self.0.load(Ordering::Acquire);
        assert!(v == 0, "sequential shim: write lock while locked (self-deadlock)");
        self.0.store(WRITER, Ordering::Release);
    }
    fn try_lock_exclusive(&self) -> bool {
        if self.0.load(Ordering::Acquire) == 0 { self.0.store(WRITER, Ordering::Release); true } else { false }
    }
    unsafe fn unlock_exclusive(&self) {
        self.0.store(0, Ordering::Release);
    }
}

pub type Mutex<T> = lock_api::Mutex<RawMutex, T>;
pub type MutexGuard<'a, T> = lock_api::MutexGuard<'a, RawMutex, T>;
pub type MappedMutexGuard<'a, T> = lock_api::MappedMutexGuard<'a, RawMutex, T>;
pub type RwLock<T> = lock_api::RwLock<RawRwLock, T>;
pub type RwLockReadGuard<'a, T> = lock_api::RwLockReadGuard<'a, RawRwLock, T>;
pub type RwLockWriteGuard<'a, T> = lock_api::RwLockWriteGuard<'a, RawRwLock, T>;
pub type MappedRwLockReadGuard<'a, T> = lock_api::MappedRwLockReadGuard<'a, RawRwLock, T>;
pub type MappedRwLockWriteGuard<'a, T> = lock_api::MappedRwLockWriteGuard<'a, RawRwLock, T>;

pub const fn const_mutex<T>(val: T) -> Mutex<T> {
    Mutex::const_new(<RawMutex as lock_api::RawMutex>::INIT, val)
}
pub const fn const_rwlock<T>(val: T) -> RwLock<T> {
    RwLock::const_new(<RawRwLock as lock_api::RawRwLock>::INIT, val)
}

#[derive(Debug, PartialEq, Eq, Copy, Clone)]
pub struct WaitTimeoutResult(bool);
impl WaitTimeoutResult {
    pub fn timed_out(&self) -> bool { self.0 }
}

#[derive(Default, Debug)]
pub struct Condvar;
impl Condvar {
    pub const fn new() -> Condvar { Condvar }
    pub fn notify_one(&self) -> bool { false }
    pub fn notify_all(&self) -> usize { 0 }
    pub fn wait<T: ?Sized>(&self, _g: &mut MutexGuard<'_, T>) {
        panic!("sequential shim: Condvar::wait would block forever");
    }
    pub fn wait_for<T: ?Sized>(&self, _g: &mut MutexGuard<'_, T>, _t: Duration) -> WaitTimeoutResult {
        WaitTimeoutResult(true)
    }
    pub fn wait_until<T: ?Sized>(&self, _g: &mut MutexGuard<'_, T>, _t: Instant) -> WaitTimeoutResult {
        WaitTimeoutResult(true)
    }
}
